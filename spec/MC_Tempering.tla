---- MODULE MC_Tempering ----
EXTENDS Tempering
MCOptions ==
  { [adaptive |-> TRUE, nsteps |-> 0, minstep |-> m, maxn |-> x, tol |-> t] :
       m \in {0, 1, 3}, x \in {0, 1, 2, 4}, t \in {1, 2} }
  \cup
  { [adaptive |-> FALSE, nsteps |-> n, minstep |-> 0, maxn |-> x, tol |-> 1] :
       n \in {1, 2, 4, 8}, x \in {0, 2} }
====
