----------------------------- MODULE Dispatch -----------------------------
(* Dispatch tables of the top-level API (src/aspire/aspire.py:
   get_sampler_class, init_sampler; src/aspire/flows/__init__.py:
   get_flow_wrapper; src/aspire/samplers/smc/base.py: target_efficiency
   setter), transcribed as functions so that every cell is replayed on the
   code.  Not tied to one listed property: it fixes *which* sampler class and
   *which* preconditioning space a sampling call builds (the space C05's target
   lives in) and which inputs are rejected.                                  *)
EXTENDS Naturals, FiniteSets, Sequences, SequencesExt, Json, IOUtils, TLC

VARIABLE cur      \* the case under examination (one TLC state per case)

SamplerTypes == {"importance", "emcee", "emcee_smc", "minipcn", "smc", "minipcn_smc", "blackjax_smc", "bogus"}
ClassOf(t) ==
  CASE t = "importance" -> "ImportanceSampler"
    [] t = "emcee" -> "Emcee"
    [] t = "emcee_smc" -> "EmceeSMC"
    [] t = "minipcn" -> "MiniPCN"
    [] t \in {"smc", "minipcn_smc"} -> "MiniPCNSMC"
    [] t = "blackjax_smc" -> "BlackJAXSMC"
    [] OTHER -> "ValueError"

Precond == {"unset", "none", "None-string", "default", "standard", "Default", "flow", "bogus"}
\* the transform the sampler ends up with
Lower(p) == IF p = "Default" THEN "default" ELSE IF p = "None-string" THEN "none" ELSE p
TransformOf(t, p) ==
  LET eff == IF p = "unset" THEN (IF t = "importance" THEN "unset" ELSE "default") ELSE Lower(p) IN
  IF ClassOf(t) = "ValueError" THEN "ValueError"
  ELSE IF eff \in {"unset", "none"} THEN "IdentityTransform"
  ELSE IF eff \in {"default", "standard"} THEN "CompositeTransform"
  ELSE IF eff = "flow" THEN "FlowPreconditioningTransform"
  ELSE "ValueError"
\* defaults of the composite pre-conditioner built by init_sampler
DefaultOptions == [affine_transform |-> FALSE, bounded_to_unbounded |-> FALSE, bounded_transform |-> "logit"]

SamplerCases == {[kind |-> "sampler", type |-> t, precond |-> p, cls |-> ClassOf(t), transform |-> TransformOf(t, p)] :
                   t \in SamplerTypes, p \in Precond}

FlowBackends == {"zuko", "flowjax", "verifflow", "bogus"}
FlowOf(b, fm) ==
  CASE b = "zuko" -> (IF fm THEN "ZukoFlowMatching" ELSE "ZukoFlow")
    [] b = "flowjax" -> (IF fm THEN "NotImplementedError" ELSE "FlowJax")
    [] b = "verifflow" -> "VerifFlow"           \* registered through the aspire.flows entry-point group
    [] OTHER -> "ValueError"
FlowCases == {[kind |-> "flow", backend |-> b, matching |-> fm, cls |-> FlowOf(b, fm)] : b \in FlowBackends, fm \in BOOLEAN}

\* target efficiency: a float strictly inside (0, 1), or an increasing pair strictly inside (0, 1)
Eff == {0, 1, 5, 9, 10}              \* tenths
EffCases == {[kind |-> "eff", form |-> "float", a |-> a, b |-> 0, ok |-> (a > 0 /\ a < 10)] : a \in Eff}
            \cup {[kind |-> "eff", form |-> "pair", a |-> a, b |-> b, ok |-> (0 < a /\ a < b /\ b < 10)] : a \in Eff, b \in Eff}

Cases == SamplerCases \cup FlowCases \cup EffCases
\* every non-importance sampler gets a pre-conditioner unless the user says "none"
DefaultPreconditioned == \A c \in {x \in {cur} : x.kind = "sampler"} :
   (c.cls \notin {"ValueError", "ImportanceSampler"} /\ c.precond = "unset") => c.transform = "CompositeTransform"
ASSUME PrintT(<<"NCASES", Cardinality(Cases)>>)
ASSUME JsonSerialize(IOEnv.OUT_FILE, [cases |-> SetToSeq(Cases), defaults |-> DefaultOptions])
\* one TLC state per case: the laws are state invariants evaluated on every case
Init == cur \in Cases
Next == UNCHANGED cur
Spec == Init /\ [][Next]_cur
=============================================================================
