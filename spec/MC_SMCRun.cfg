SPECIFICATION Spec
CONSTANTS
  K = 4
  MaxIter = 3
  ArgSet <- MCArgs
  MaxCrashes = 2
  Routes <- MCRoutes
  PayloadFields <- MCPayload
  RestoredFields <- MCRestored
  ReappendOnResume = FALSE
  CapAwareResume = TRUE
VIEW View
INVARIANT HistoryFaithful
INVARIANT EvidenceTerms
INVARIANT EvidenceSum
INVARIANT EvidenceIndependent
INVARIANT ScheduleOK
INVARIANT CadenceExact
INVARIANT FileHoldsLatest
INVARIANT ConfigAndFlowPresent
INVARIANT Loadable
INVARIANT ResumeRestoresState
INVARIANT ResumeDeterministic
