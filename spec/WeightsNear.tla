---------------------------- MODULE WeightsNear ----------------------------
(* Near-uniform weights: the conditioning end of the weight functionals
   (src/aspire/samples.py: Samples.compute_weights).  Complements Weights.tla,
   whose power-of-two lattice is exact in floating point and therefore blind
   to cancellation.

   Sample i has weight  w_i = 1 + m_i * 2^-s  with small integers m_i >= 0
   (a proposal almost equal to the target).  With  n  samples, M = sum m,
   Q2 = sum m^2  and  D = sum (n m_i - M)^2 :

       mean w              = (n 2^s + M) / (n 2^s)
       sum (w - mean)^2    = D / (n^2 2^(2s))
       squared relative error of the evidence
                           = D / ( n (n-1) (n 2^s + M)^2 )
       D = n (n Q2 - M^2)          (two-pass form = one-pass form, exactly)

   The last identity is what makes "mean(w^2) - mean(w)^2" look like a harmless
   rewrite of the two-pass variance; in floating point it cancels to noise as
   soon as 2^(-2s) reaches the unit round-off.  The scale s is chosen by the
   harness (the identities hold for every s); TLC enumerates the offset
   vectors and exports n, M, Q2, D.                                       *)
EXTENDS Integers, Sequences, FiniteSets, SequencesExt, FiniteSetsExt, Json, IOUtils, TLC

VARIABLE cur
CONSTANTS NMin, NMax, MMax

SumSeq(q) == FoldLeft(LAMBDA a, b : a + b, 0, q)
MSeqs == UNION {[1..n -> 0..MMax] : n \in NMin..NMax}
Msum(ms) == SumSeq(ms)
Q2(ms) == SumSeq([i \in 1..Len(ms) |-> ms[i] * ms[i]])
D(ms) == SumSeq([i \in 1..Len(ms) |-> (Len(ms) * ms[i] - Msum(ms)) * (Len(ms) * ms[i] - Msum(ms))])

Case(ms) == [ms |-> ms, n |-> Len(ms), msum |-> Msum(ms), q2 |-> Q2(ms), d |-> D(ms)]
Cases == {Case(ms) : ms \in MSeqs}

(* laws of the reference *)
TwoPassIsOnePass == \A c \in {cur} : c.d = c.n * (c.n * c.q2 - c.msum * c.msum)
SpreadNonNeg == \A c \in {cur} : c.d >= 0
ZeroIffUniform == \A c \in {cur} : (c.d = 0) <=> (\A i, j \in 1..c.n : c.ms[i] = c.ms[j])
PermInvNear == \A c \in {cur} : LET srt == SortSeq(c.ms, <) IN Msum(srt) = c.msum /\ D(srt) = c.d

ASSUME PrintT(<<"NCASES", Cardinality(Cases)>>)
ASSUME JsonSerialize(IOEnv.OUT_FILE, SetToSeq(Cases))

Init == cur \in Cases
Next == UNCHANGED cur
Spec == Init /\ [][Next]_cur
=============================================================================
