SPECIFICATION TSpec
CONSTANTS
  K = 1
  MaxIter = 1
  ArgSet <- TraceArgSet
  MaxCrashes = 0
  Routes <- TraceRoutes
  PayloadFields <- TracePayload
  RestoredFields <- TraceRestored
  ReappendOnResume = FALSE
  CapAwareResume = TRUE
POSTCONDITION AllJudged
CHECK_DEADLOCK FALSE
