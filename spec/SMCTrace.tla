---------------------------- MODULE SMCTrace ----------------------------
(* Trace validation of real aspire SMC runs against SMCRun.tla.

   Input: an ndjson file (IOEnv.TRACE_FILE), one line per *group* of runs
   that share one content-id table and one temperature rank table
   (harness/smcdrv.py: project_group).  Every event of every run is consumed
   by one TLC step.  The live-sampler record `s` is advanced with the very
   transformers of SMCRun (DoStart, DoTemper, DoResample, DoKernel,
   DoPostEval, DoAppend, DoCkpt, DoExit, DoEnlargeTest, DoFinalResample,
   DoFinalKernel, DoFinalEval, DoEvidence, DoFinish, DoRestore, DoReinit),
   their parameters being bound from the event.  What the run logged
   (checkpoint payloads, the final history) is compared with what the
   specification computed.

   Verdicts are total: a failed clause is recorded by name in `viol` and
   the rest of the trace is still checked.  Names starting with "conf_" are
   conformance clauses of the implementation-shaped model (reported as
   MODEL-DRIFT by the harness); every other name is a property monitor.  *)
EXTENDS SMCRun, Integers, Json, IOUtils, TLCExt, SequencesExt, FiniteSetsExt

Groups == ndJsonDeserialize(IOEnv.TRACE_FILE)
TraceArgSet == {}
TraceRoutes == {}
\* fields of the live sampler carried by a checkpoint and set by a restore
\* (the harness re-extracts both from the working tree for MC_SMCRun; the
\* trace spec uses the full set because its restore event is the projection
\* of the payload the real restore was given)
TracePayload == {"pop", "size", "iter", "beta", "hist", "rng", "minStep"}
TraceRestored == {"pop", "size", "iter", "beta", "hist", "rng", "minStep"}

VARIABLES gi,    \* group index
          ri,    \* run index within the group
          l,     \* next event of the run
          aux,   \* per-run observation state
          gaux,  \* per-group observation state (reference run, file contents)
          viol   \* set of <<run index, clause name>>

unused == <<disk, lastPayload, lastWritten, full, crashes, log, firstResult>>
tvars == <<gi, ri, l, aux, gaux, viol, s, args, unused>>

V(cond, name) == IF cond THEN {} ELSE {name}
MinOf(S) == CHOOSE x \in S : \A y \in S : x <= y
SeqAll(q, P(_)) == \A i \in 1..Len(q) : P(q[i])

G == Groups[gi]
R == G.runs[ri]
Evs == R.ev
One == G.one
Cfg == G.cfg
RCOf(i) == IF i <= Len(G.runs) THEN G.runs[i].rcfg ELSE G.runs[1].rcfg     \* per-run arguments
AOf(i) == [every |-> RCOf(i).every, nfinal |-> RCOf(i).n_final, maxn |-> RCOf(i).max_n_steps,
           path |-> RCOf(i).has_path]
RC == RCOf(ri)
A == AOf(ri)

FreshAux == [phase |-> "init", sumN |-> 0, enl |-> FALSE, ckIters |-> <<>>, gotFinal |-> FALSE]
FreshGaux == [hasRef |-> FALSE, ref |-> [none |-> TRUE], lastBytes |-> 0, refLogz |-> 0, fileIter |-> -1]

NextKBeta(i) ==
  LET idx == {j \in (i + 1)..Len(Evs) : Evs[j].t = "kbegin"} IN
  IF idx = {} THEN -1 ELSE Evs[MinOf(idx)].beta

\* checkpoint block not observed as an event: take the spec's step silently
AdvanceCk(t) ==
  IF t.pc = "ckpt" THEN [st |-> DoExit(DoCkpt(t, A, FALSE), A, One),
                         v |-> V((~RC.ckpt_events) \/ ~Due(t, A, FALSE), "CadenceExact")]
  ELSE [st |-> t, v |-> {}]

PayloadOK(t, ev) ==
     V(ev.iter = t.iter, "conf_ckpt_iter")
  \cup V(ev.beta = t.beta, "conf_ckpt_beta")
  \cup V(ev.pop = t.pop, "FileHoldsLatest_payload_pop")
  \cup V(ev.size = t.size, "conf_ckpt_size")
  \cup V(ev.hbetas = t.hist.beta, "HistoryFaithful_payload_betas")
  \cup V((~t.store) \/ ev.hpops = t.hist.pops, "HistoryFaithful_payload_pops")
  \cup V(ev.coh[1] /\ ev.coh[2] /\ ev.coh[3], "CachedCoherent")
  \cup V(ev.width = Cfg.width, "PrecisionKept")
  \cup V(ev.has_rng, "conf_payload_rng")

HistFromPayload(hb, hp) ==
  LET n == Len(hb)
      trip(i) == <<IF i <= Len(hp) THEN hp[i] ELSE -1, IF i = 1 THEN 0 ELSE hb[i - 1], hb[i]>>
      tr == [i \in 1..n |-> trip(i)]
  IN [beta |-> hb, ess |-> tr, ratio |-> tr, var |-> tr,
      acc |-> [i \in 1..n |-> hb[i]], pops |-> hp]

(* one event -> new (s, aux, gaux) and newly failed clauses *)
Process(ev, i) ==
  CASE ev.t \in {"prior", "draw", "logq"} ->
         [s |-> s, aux |-> aux, gaux |-> gaux, v |-> {}]
    [] ev.t = "restore" ->
         LET src == [iter |-> ev.iter, beta |-> ev.beta, pop |-> ev.pop, size |-> ev.size,
                     rng |-> 0, minStep |-> s.minStep, hist |-> HistFromPayload(ev.hbetas, ev.hpops)]
             t1 == DoReinit(DoRestore(A, src), A, One)
         IN [s |-> t1, aux |-> [aux EXCEPT !.phase = "loop"], gaux |-> gaux, v |-> {}]
    [] ev.t = "like" /\ G.kind = "calls_group" ->
         \* importance / MCMC samplers: only the call-site monitors apply
         [s |-> [s EXCEPT !.nlike = @ + ev.n], aux |-> [aux EXCEPT !.sumN = @ + ev.n], gaux |-> gaux,
          v |-> V(ev.has_prior /\ ev.prior_ok, "PriorBeforeLikelihood")
                \cup V(ev.width = Cfg.width, "PrecisionKept")]
    [] ev.t = "result" ->
         LET cmp == gaux.hasRef /\ R.role = "repeat" IN
         [s |-> s, aux |-> [aux EXCEPT !.gotFinal = TRUE],
          gaux |-> IF R.role = "reference" THEN [gaux EXCEPT !.hasRef = TRUE, !.ref = ev] ELSE gaux,
          v |-> V(ev.nlike < 0 \/ ev.nlike = aux.sumN, "CountExact")
                \cup V(SeqAll(ev.coh, LAMBDA c : c), "CachedCoherent")
                \cup V(ev.size_ok, "InitialPopulation")
                \cup V(ev.width_ok, "PrecisionKept")
                \cup V(cmp => ev.ids = gaux.ref.ids, "RunDeterministic")]
    [] ev.t = "like" ->
         LET common == V(ev.has_prior /\ ev.prior_ok, "PriorBeforeLikelihood")
                       \cup V(ev.width = Cfg.width, "PrecisionKept")
             a1 == [aux EXCEPT !.sumN = @ + ev.n]
         IN IF ev.faulted     \* the injected exception left sample() from inside this call
              THEN [s |-> [s EXCEPT !.nlike = @ + ev.n], aux |-> a1, gaux |-> gaux, v |-> common]
            ELSE IF ev.inker
              THEN [s |-> [s EXCEPT !.nlike = @ + ev.n], aux |-> a1, gaux |-> gaux,
                    v |-> common \cup V(aux.phase = "inker", "conf_like_in_kernel")]
            ELSE IF aux.phase = "init"
              THEN [s |-> DoStart(s, ev.batch, ev.n), aux |-> [a1 EXCEPT !.phase = "loop"], gaux |-> gaux,
                    v |-> common \cup V(ev.n = Cfg.N, "InitialPopulation")]
            ELSE IF aux.phase = "postk"
              THEN [s |-> IF aux.enl THEN DoFinalEval(s, ev.batch) ELSE DoAppend(DoPostEval(s, ev.batch)),
                    aux |-> [a1 EXCEPT !.phase = "loop"], gaux |-> gaux,
                    v |-> common \cup V(ev.n = s.size, "conf_post_eval_size")]
            ELSE [s |-> [s EXCEPT !.nlike = @ + ev.n], aux |-> a1, gaux |-> gaux,
                  v |-> common \cup {"conf_like_unexpected"}]
    [] ev.t = "choice" ->
         LET adv == AdvanceCk(s)
             t0 == adv.st
             nb == NextKBeta(i)
             j  == Len(t0.hist.pops) - 1
         IN IF t0.pc = "top"
              THEN [s |-> DoResample(DoTemper(t0, nb, t0.minStep), nb, ev.size, <<"res">>),
                    aux |-> [aux EXCEPT !.enl = FALSE], gaux |-> gaux,
                    v |-> adv.v \cup V(ev.sum_ok /\ (~t0.store \/ <<j, t0.beta, nb>> \in ToSet(ev.prov)), "ProbProportional")
                              \cup V(ev.size = t0.size /\ ev.n_src = t0.size, "NewBetaAndSize")
                              \cup V(nb >= 0, "conf_choice_without_kernel")]
            ELSE LET t1 == IF t0.pc = "enlarge_test" THEN DoEnlargeTest(t0, A) ELSE t0 IN
                 [s |-> DoFinalResample(t1, A, <<"res">>), aux |-> [aux EXCEPT !.enl = TRUE], gaux |-> gaux,
                  v |-> adv.v \cup V(t1.pc = "fres", "conf_unexpected_resample")
                            \* the final resampling is the move from the last temperature reached to One (a capped
                            \* schedule may have stopped below One): drawn by the incremental weight of *that* move
                            \cup V(ev.sum_ok /\ (~t1.store \/ <<Len(t1.hist.pops) - 1, t1.beta, One>> \in ToSet(ev.prov)), "ProbProportional")
                            \cup V(ev.size = A.nfinal /\ ev.n_src = t0.size, "NewBetaAndSize")]
    [] ev.t = "kinit" ->
         [s |-> s, aux |-> aux, gaux |-> gaux,
          v |-> V(Cfg.rng_route = "none" \/ ev.rng_user, "UserRngUsed")]
    [] ev.t \in {"kbegin", "kend"} /\ G.kind = "calls_group" ->
         [s |-> s, aux |-> aux, gaux |-> gaux,
          v |-> IF ev.t = "kbegin" THEN V(Cfg.rng_route = "none" \/ ev.rng_user, "UserRngUsed") ELSE {}]
    [] ev.t = "kbegin" ->
         LET adv == AdvanceCk(s)
             t0 == adv.st
             \* no resampling was observed (identical temperature, or a sampler whose
             \* generator is not observable): the block starts here
             t1 == IF t0.pc = "top"
                     THEN DoResample(DoTemper(t0, ev.beta, t0.minStep), ev.beta, t0.size, <<"res">>)
                   ELSE IF t0.pc = "enlarge_test"
                     THEN DoFinalResample(DoEnlargeTest(t0, A), A, <<"res">>)
                   ELSE t0
             enl == IF t0.pc = "top" THEN FALSE ELSE IF t0.pc = "enlarge_test" THEN TRUE ELSE aux.enl
         IN [s |-> t1, aux |-> [aux EXCEPT !.phase = "inker", !.enl = enl], gaux |-> gaux,
             v |-> adv.v \cup V(ev.beta = (IF enl THEN One ELSE t1.beta), "KernelTemperature") \cup V(ev.n = t1.size, "conf_kernel_size")
                       \cup V(t1.pc \in {"kernel", "fkernel"}, "conf_kernel_unexpected")
                       \cup V(Cfg.rng_route = "none" \/ ev.rng_user, "UserRngUsed")]
    [] ev.t = "kend" ->
         [s |-> IF aux.enl THEN DoFinalKernel(s, 0, One, <<"zout", ev.out>>)
                ELSE DoKernel(s, s.beta, 0, <<"zout", ev.out>>),
          aux |-> [aux EXCEPT !.phase = "postk"], gaux |-> gaux, v |-> {}]
    [] ev.t = "ckpt" ->
         IF s.pc = "ckpt" /\ Due(s, A, FALSE)
           THEN [s |-> DoExit(DoCkpt(s, A, FALSE), A, One),
                 aux |-> [aux EXCEPT !.ckIters = Append(@, <<ev.iter, FALSE>>)],
                 gaux |-> [gaux EXCEPT !.lastBytes = ev.bytes],
                 v |-> PayloadOK(s, ev)]
         ELSE \* not a regular checkpoint: it must be the forced one at the end of the run
              LET t0 == AdvanceCk(s).st
                  t1 == IF t0.pc = "enlarge_test" THEN DoEnlargeTest(t0, A) ELSE t0
                  t2 == DoEvidence(t1)
              IN IF t1.pc = "evidence"
                   THEN [s |-> DoCkpt(t2, A, TRUE),
                         aux |-> [aux EXCEPT !.ckIters = Append(@, <<ev.iter, TRUE>>)],
                         gaux |-> [gaux EXCEPT !.lastBytes = ev.bytes],
                         v |-> V(A.every > 0, "conf_ckpt_without_cadence") \cup PayloadOK(t2, ev)]
                 ELSE \* a checkpoint that is neither due nor final
                      [s |-> t0, aux |-> aux, gaux |-> [gaux EXCEPT !.lastBytes = ev.bytes],
                       v |-> {"CadenceExact"}]
    [] ev.t = "file" ->
         LET t0 == AdvanceCk(s).st
             expIter == IF Len(t0.ckpts) > 0 THEN LastOf(t0.ckpts)[1] ELSE gaux.fileIter
         IN [s |-> s, aux |-> aux, gaux |-> [gaux EXCEPT !.fileIter = ev.blob_iter],
             v |-> V(gaux.lastBytes = 0 \/ ev.blob = gaux.lastBytes, "FileHoldsLatest")
                \cup V(ev.last_bytes = 0 \/ ev.blob = ev.last_bytes, "FileHoldsLatest")
                \cup V(ev.blob = 0 \/ ev.loadable, "Loadable")
                \cup V((~Cfg.expect_cfg) \/ (ev.has_cfg /\ ev.has_flow), "ConfigAndFlowFirst")
                \* "the file contains the proposal": the one this run samples with, not the one an
                \* earlier fit left there
                \cup V(ev.flow_cur # "stale", "FlowIsCurrent")
                \* the library's own file callback: the file changes exactly when a checkpoint is due
                \cup V(RC.ckpt_events \/ (~RC.has_path) \/ ev.blob_iter = expIter, "CadenceExact")]
    [] ev.t = "fault" ->
         \* sample() was left through an exception raised inside a user call
         [s |-> s, aux |-> aux, gaux |-> gaux, v |-> V(ev.nlike = aux.sumN, "CountExact")]
    [] ev.t = "partial" ->
         [s |-> s, aux |-> aux, gaux |-> gaux,
          v |-> V(\A k \in 1..Len(ev.betas) : ev.betas[k] > (IF k = 1 THEN G.zero ELSE ev.betas[k - 1]),
                  "StrictlyIncreasing")]
    [] ev.t = "final" ->
         LET adv == AdvanceCk(s)
             t0 == adv.st
             t1 == IF t0.pc = "enlarge_test" THEN DoEnlargeTest(t0, A) ELSE t0
             sawForced == \E k \in 1..Len(aux.ckIters) : aux.ckIters[k][2]
             t2 == IF t1.pc = "evidence" THEN DoCkpt(DoEvidence(t1), A, TRUE) ELSE t1
             t3 == IF t2.pc = "finish" THEN DoFinish(t2) ELSE t2
             T == ev.iterations
             bAt(k) == IF k = 0 THEN G.zero ELSE ev.betas[k]
             expTrip(k) == <<k - 1, bAt(k - 1), ev.betas[k]>>
             lensOK == /\ ev.lens.beta = T /\ ev.lens.ess = T /\ ev.lens.ess_target = T
                       /\ ev.lens.eff_target = T /\ ev.lens.log_norm_ratio = T
                       /\ ev.lens.log_norm_ratio_var = T
                       /\ ev.lens.mcmc_acceptance \in {T, T + 1}
                       /\ ev.lens.sample_history = T + 1
             regular == {aux.ckIters[k][1] : k \in {q \in 1..Len(aux.ckIters) : ~aux.ckIters[q][2]}}
             isRef == R.role = "reference"
             cmp == gaux.hasRef /\ R.role \in {"resumed", "repeat"}
             ref == gaux.ref
         IN [s |-> t3, aux |-> [aux EXCEPT !.gotFinal = TRUE],
             gaux |-> IF isRef THEN [gaux EXCEPT !.hasRef = TRUE, !.ref = ev, !.refLogz = ev.logz]
                      ELSE IF gaux.refLogz = 0 THEN [gaux EXCEPT !.refLogz = ev.logz] ELSE gaux,
             v |-> adv.v
               \* ---- conformance of the implementation-shaped model
               \cup V(t3.pc = "done", "conf_final_position")
               \cup V(T = t3.iter, "conf_iterations")
               \* ---- C18
               \cup V(lensOK, "HistoryFaithful_lengths")
               \cup V(ev.betas = t3.hist.beta, "HistoryFaithful_betas")
               \cup V(ev.pops = t3.hist.pops, "HistoryFaithful_populations")
               \cup V(ev.have_pops => \A k \in 1..T : expTrip(k) \in ToSet(ev.ess_prov[k]), "HistoryFaithful_ess")
               \cup V(ev.have_pops => \A k \in 1..T : expTrip(k) \in ToSet(ev.ratio_prov[k]), "HistoryFaithful_ratio")
               \* ---- C08
               \cup V(ev.have_pops => \A k \in 1..T : expTrip(k) \in ToSet(ev.ratio_prov[k]), "EvidenceTerms")
               \* exactly one term per iteration actually performed (counted by the spec from the events)
               \cup V(ev.lens.log_norm_ratio = t3.iter /\ ev.lens.log_norm_ratio_var = t3.iter, "EvidenceTerms")
               \cup V((gaux.hasRef /\ R.role = "resumed") => (ev.logz = gaux.ref.logz /\ ev.logzerr = gaux.ref.logzerr),
                      "EvidenceIndependent")
               \cup V(ev.sum_ok, "EvidenceSum")
               \cup V(ev.err_ok /\ (ev.have_pops => \A k \in 1..T : ev.var_ok[k]), "ErrorIsRootSumVar")
               \cup V(R.role # "variant" \/ gaux.refLogz = 0 \/ ev.logz = gaux.refLogz, "EvidenceIndependent")
               \* ---- C06
               \cup V(\A k \in 1..T : ev.betas[k] > bAt(k - 1), "StrictlyIncreasing")
               \cup V(\A k \in 1..T : ev.in_unit[k] /\ ev.betas[k] <= One, "InUnit")
               \cup V(T > 0 /\ (ev.betas[T] = One \/ (RC.max_n_steps > 0 /\ T = RC.max_n_steps)) , "EndsAtOneOrCap")
               \cup V(RC.adaptive \/ RC.max_n_steps > 0 \/ T = RC.n_steps, "FixedExactlyN")
               \cup V(RC.max_n_steps = 0 \/ T <= RC.max_n_steps, "CapHonoured")
               \cup V(\A k \in 1..T : ev.floor_ok[k] # "no", "FloorHonoured")
               \* ---- C07
               \cup V((RC.adaptive /\ ev.have_pops) =>
                        \A k \in 1..T :
                           \/ ev.forced[k]
                           \/ (ev.meets_one[k] # "no" /\ ev.at_one[k])
                           \/ (ev.meets_one[k] # "yes" /\ ev.meets[k] # "no" /\ (ev.at_one[k] \/ ev.next_meets[k] # "yes")),
                      "AdaptiveMaximal")
               \* ---- C10
               \cup V(SeqAll(ev.coh, LAMBDA c : c[1] /\ c[2] /\ c[3]) /\ ev.res_coh[1] /\ ev.res_coh[2], "CachedCoherent")
               \cup V(R.resumed \/ (ev.init_size = Cfg.N /\ ev.finite_prior), "InitialPopulation")
               \cup V(ev.size = (IF RC.n_final > 0 THEN RC.n_final ELSE Cfg.N), "conf_result_size")
               \* ---- C15
               \cup V(ev.widths = <<Cfg.width>> /\ ev.res_width = Cfg.width /\ ev.res_ns = Cfg.ns, "PrecisionKept")
               \* ---- C17
               \cup V(ev.nlike = aux.sumN, "CountExact")
               \cup V(ev.nlike = t3.nlike, "conf_count_model")
               \* ---- C12
               \cup V((~RC.ckpt_events) \/ RC.every = 0 \/ \A k \in (t3.startIter + 1)..T : (k % RC.every = 0) <=> (k \in regular), "CadenceExact")
               \cup V((~RC.ckpt_events) \/ RC.every = 0 \/ sawForced, "CadenceExact_final")
               \* ---- C11 / C20
               \cup V(cmp => /\ ev.betas = ref.betas /\ ev.pops = ref.pops /\ ev.logz = ref.logz
                             /\ ev.logzerr = ref.logzerr /\ ev.res_pop = ref.res_pop
                             /\ ev.series_ids = ref.series_ids /\ ev.res_ll = ref.res_ll,
                      IF R.role = "resumed" THEN "ResumeDeterministic" ELSE "RunDeterministic")]
    [] OTHER -> [s |-> s, aux |-> aux, gaux |-> gaux, v |-> {"conf_unknown_event"}]

RunEnd ==
     V(R.status # "raised", "NeverRaises")
  \* (when the uninterrupted run itself ends in an exception - e.g. whitening of a collapsed population -
  \*  its continuation may do the same: only a continuation of a run that completes must complete)
  \cup V(~(R.role = "resumed" /\ R.status = "raised" /\ gaux.hasRef), "ResumeFromFileWorks")
  \cup V(R.status # "ok" \/ aux.gotFinal, "conf_no_final")
  \cup V(Cfg.rng_route = "none" \/ R.orng_created = 0, "UserRngUsed")

TInit ==
  /\ gi \in 1..Len(Groups)
  /\ ri = 1 /\ l = 1
  /\ args = A
  /\ s = Fresh(A)
  /\ aux = FreshAux /\ gaux = FreshGaux /\ viol = {}
  /\ disk = NoBlob /\ lastPayload = NoBlob /\ lastWritten = NoBlob /\ full = <<>>
  /\ crashes = 0 /\ log = <<>> /\ firstResult = NoResult
  /\ TLCSet(1, 0)

Consume ==
  /\ ri <= Len(G.runs) /\ l <= Len(Evs)
  /\ LET p == Process(Evs[l], l) IN
     /\ s' = p.s /\ aux' = p.aux /\ gaux' = p.gaux
     /\ viol' = viol \cup {<<ri, n>> : n \in p.v}
  /\ l' = l + 1
  /\ UNCHANGED <<gi, ri, args, unused>>

NextRun ==
  /\ ri <= Len(G.runs) /\ l > Len(Evs)
  /\ viol' = viol \cup {<<ri, n>> : n \in RunEnd}
  /\ ri' = ri + 1 /\ l' = 1
  /\ s' = Fresh(AOf(ri + 1)) /\ aux' = FreshAux
  \* only a resumed run continues on the file of the run before it
  /\ gaux' = IF ri + 1 <= Len(G.runs) /\ G.runs[ri + 1].resumed THEN gaux
             ELSE [gaux EXCEPT !.fileIter = -1, !.lastBytes = 0]
  /\ UNCHANGED <<gi, args, unused>>

Verdict ==
  /\ ri = Len(G.runs) + 1
  /\ PrintT(<<"VERDICT", G.id, viol>>)
  /\ TLCSet(1, TLCGet(1) + 1)
  /\ ri' = ri + 1
  /\ UNCHANGED <<gi, l, aux, gaux, viol, s, args, unused>>

TNext == Consume \/ NextRun \/ Verdict
TSpec == TInit /\ [][TNext]_tvars

\* every group received a verdict (machinery self-check)
AllJudged == TLCGet(1) = Len(Groups)
=============================================================================
