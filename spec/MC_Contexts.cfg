SPECIFICATION Spec
CONSTANTS
  Pools = {"p1", "p2"}
  MaxDepth = 3
  MaxOps = 6
INVARIANT ContextsRestored
INVARIANT PoolClosedIffAsked
INVARIANT AllClosedMeansPristine
