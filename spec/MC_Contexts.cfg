SPECIFICATION Spec
CONSTANTS
  Pools = {"p1", "p2"}
  MaxDepth = 3
  MaxOps = 6
  MaxHandlers = 2
  BadPools = {"p2"}
  PoolOpts <- AllPoolOpts
  AutoOpts <- AllAutoOpts
INVARIANT ContextsRestored
INVARIANT PoolClosedIffAsked
INVARIANT AllClosedMeansPristine
