------------------------------ MODULE Weights ------------------------------
(* Exact-arithmetic reference model of importance weights, evidence and
   effective sample size (src/aspire/samples.py: Samples.compute_weights,
   scaled_weights, rejection_sample; src/aspire/utils.py:
   effective_sample_size, logsumexp).

   Sample i has  log L = ll_i ln 2,  log pi = lp_i ln 2,  log q = lq_i ln 2
   with small integers, so its weight is the exact power of two 2^(k_i),
   k_i = ll_i + lp_i - lq_i  (Dead = the likelihood is zero: weight 0).
   With  W_i = 2^(k_i + R)  (integers),  S = sum W,  Q = sum W^2 :
       evidence * N * 2^R = S                 (log-evidence = ln(S / (N 2^R)))
       ESS               = S^2 / Q            in [1, N]
       relative variance = (N Q - S^2) / ((N - 1) S^2)
   A common shift c added to every log-likelihood multiplies every weight
   by 2^c: ESS and the relative error are unchanged, the log-evidence moves
   by c ln 2.  The laws are ASSUMEd over the whole enumerated case set
   (they guard the reference), and every case is exported and replayed.     *)
EXTENDS Integers, Sequences, FiniteSets, SequencesExt, FiniteSetsExt, Json, IOUtils, TLC

VARIABLE cur      \* the case under examination (one TLC state per case)

CONSTANTS R,        \* exponents k range over -R..R
          NMin, NMax,
          Splits,   \* how k is split into (ll, lp, lq): set of <<dl, dp>> offsets
          MaxCases  \* thinning of the multiset x split product

Dead == 99
Exps == (0 - R)..R
Pow2(n) == IF n = 0 THEN 1 ELSE 2 ^ n

W(k) == IF k = Dead THEN 0 ELSE Pow2(k + R)
SumSeq(q) == FoldLeft(LAMBDA a, b : a + b, 0, q)
Ws(ks) == [i \in 1..Len(ks) |-> W(ks[i])]
S(ks) == SumSeq(Ws(ks))
Q(ks) == SumSeq([i \in 1..Len(ks) |-> W(ks[i]) * W(ks[i])])
MaxK(ks) == LET live == {ks[i] : i \in {j \in 1..Len(ks) : ks[j] # Dead}} IN
            CHOOSE m \in live : \A x \in live : x <= m

\* split k into (ll, lp, lq) with ll + lp - lq = k
Triple(k, sp) == IF k = Dead THEN <<Dead, sp[2], sp[1] + sp[2]>>
                 ELSE <<k + sp[1], sp[2], sp[1] + sp[2]>>   \* ll = k + a, lp = b, lq = a + b

Case(ks, sp) ==
  [ks |-> ks, n |-> Len(ks), split |-> sp,
   trip |-> [i \in 1..Len(ks) |-> Triple(ks[i], sp)],
   s |-> S(ks), q |-> Q(ks), r |-> R,
   essnum |-> S(ks) * S(ks), essden |-> Q(ks),
   rvnum |-> Len(ks) * Q(ks) - S(ks) * S(ks), rvden |-> (Len(ks) - 1) * S(ks) * S(ks),
   kmax |-> MaxK(ks)]

KSeqs == {ks \in UNION {[1..n -> Exps \cup {Dead}] : n \in NMin..NMax} :
            \E i \in 1..Len(ks) : ks[i] # Dead}
Thin(SS) == IF Cardinality(SS) <= MaxCases THEN SS
            ELSE LET q == SetToSeq(SS) step == Len(q) \div MaxCases
                 IN {q[1 + ((j * step) % Len(q))] : j \in 0..(MaxCases - 1)}
Cases == {Case(p[1], p[2]) : p \in Thin(KSeqs \X Splits)}

(* ---- laws of the reference -------------------------------------------- *)
EssRange == \A c \in {cur} : c.essden <= c.essnum /\ c.essnum <= c.n * c.essden     \* 1 <= ESS <= N
RelVarNonNeg == \A c \in {cur} : c.rvnum >= 0
\* permutation invariance: the functionals depend on the multiset only
PermInv == \A c \in {cur} : LET srt == SortSeq(c.ks, <) IN S(srt) = c.s /\ Q(srt) = c.q
\* shift law on the lattice: adding 1 to every exponent doubles S and quadruples Q (ESS unchanged)
Shift1(ks) == [i \in 1..Len(ks) |-> IF ks[i] = Dead THEN Dead ELSE ks[i] + 1]
ShiftLaw == \A c \in {cur} : (\A i \in 1..c.n : c.ks[i] = Dead \/ c.ks[i] < R) =>
               (S(Shift1(c.ks)) = 2 * c.s /\ Q(Shift1(c.ks)) = 4 * c.q)
\* equal weights give ESS = number of live samples
UniformEss == \A c \in {cur} : (\A i, j \in 1..c.n : c.ks[i] = c.ks[j]) => c.essnum = c.n * c.essden

ASSUME PrintT(<<"NCASES", Cardinality(Cases)>>)
ASSUME JsonSerialize(IOEnv.OUT_FILE, SetToSeq(Cases))

\* one TLC state per case: the laws are state invariants evaluated on every case
Init == cur \in Cases
Next == UNCHANGED cur
Spec == Init /\ [][Next]_cur
=============================================================================
