------------------------------ MODULE Target ------------------------------
(* Reference model of the log-density handed to the kernels
   (src/aspire/samplers/smc/base.py: SMCSampler.log_prob,
    src/aspire/samplers/smc/blackjax.py: BlackJAXSMC.log_prob,
    src/aspire/samplers/mcmc.py: MCMCSampler.log_prob):

      SMC kinds :  (1 - beta) log q(x) + beta (log L(x) + log pi(x)) + log|det dx/dz|
      MCMC kinds:  log L(x) + log pi(x) + log|det dx/dz|           (beta = 1, no q term)

   beta = j/8; q, L, pi, J are small integers or the special values
   MinusInf / NaN, so every finite result is an exact dyadic rational
   (returned here in eighths).  IEEE semantics of the specials is spelled
   out; for the SMC kinds an undefined (NaN) value is mapped to MinusInf.  *)
EXTENDS Integers, FiniteSets, Sequences, SequencesExt, Json, IOUtils, TLC

VARIABLE cur      \* the case under examination (one TLC state per case)

CONSTANTS Vals,      \* finite integer values
          Js,        \* beta numerators (eighths)
          Jacs,      \* log-Jacobian values
          Kinds,     \* subset of {"smc", "mcmc"}
          MaxCases

MinusInf == 1000
NaN == 2000
IsFin(v) == v # MinusInf /\ v # NaN

\* a * v for a finite non-negative factor a (in eighths) and a value v; result in eighths
Scale(a, v) == IF v = NaN THEN NaN
               ELSE IF v = MinusInf THEN (IF a = 0 THEN NaN ELSE MinusInf)    \* 0 * (-inf) is undefined
               ELSE a * v
Add(u, v) == IF u = NaN \/ v = NaN THEN NaN
             ELSE IF u = MinusInf \/ v = MinusInf THEN MinusInf
             ELSE u + v
AddInt(u, v) == Add(u, v)

SmcRaw(j, q, l, p, jac) == Add(Add(Scale(8 - j, q), Scale(j, AddInt(l, p))), 8 * jac)
Smc(j, q, l, p, jac) == LET r == SmcRaw(j, q, l, p, jac) IN IF r = NaN THEN MinusInf ELSE r
Mcmc(l, p, jac) == Add(Scale(8, AddInt(l, p)), 8 * jac)

QVals == Vals \cup {MinusInf, NaN}
LVals == Vals \cup {MinusInf, NaN}
PVals == Vals \cup {MinusInf}

SmcCases == {[kind |-> "smc", j |-> j, q |-> q, l |-> l, p |-> p, jac |-> jac,
              expect |-> Smc(j, q, l, p, jac), raw |-> SmcRaw(j, q, l, p, jac)] :
                j \in Js, q \in QVals, l \in LVals, p \in PVals, jac \in Jacs}
McmcCases == {[kind |-> "mcmc", j |-> 8, q |-> 0, l |-> l, p |-> p, jac |-> jac,
               expect |-> Mcmc(l, p, jac), raw |-> Mcmc(l, p, jac)] :
                l \in Vals \cup {MinusInf}, p \in PVals, jac \in Jacs}
All == (IF "smc" \in Kinds THEN SmcCases ELSE {}) \cup (IF "mcmc" \in Kinds THEN McmcCases ELSE {})
Thin(SS) == IF Cardinality(SS) <= MaxCases THEN SS
            ELSE LET q == SetToSeq(SS) step == Len(q) \div MaxCases
                 IN {q[1 + ((k * step) % Len(q))] : k \in 0..(MaxCases - 1)}
Cases == Thin(All)

(* C05 laws on the reference *)
ZeroPriorMinusInf == \A c \in {cur} : c.p = MinusInf => c.expect = MinusInf
NanToMinusInf == \A c \in {x \in {cur} : x.kind = "smc"} : c.expect # NaN
FiniteIffAllFinite ==
  \A c \in {x \in {cur} : x.kind = "smc"} : IsFin(c.expect) <=> (IsFin(c.l) /\ IsFin(c.p) /\ (IsFin(c.q) \/ (c.q = MinusInf /\ FALSE)))
TargetDef == \A c \in {x \in {cur} : x.kind = "smc"} : (IsFin(c.q) /\ IsFin(c.l) /\ IsFin(c.p)) =>
                c.expect = (8 - c.j) * c.q + c.j * (c.l + c.p) + 8 * c.jac
ASSUME PrintT(<<"NCASES", Cardinality(Cases)>>)
ASSUME JsonSerialize(IOEnv.OUT_FILE, SetToSeq(Cases))

\* one TLC state per case: the laws are state invariants evaluated on every case
Init == cur \in Cases
Next == UNCHANGED cur
Spec == Init /\ [][Next]_cur
=============================================================================
