------------------------------ MODULE Blob ------------------------------
(* In-place overwrite of the pickled checkpoint in its resizable HDF5
   dataset (src/aspire/utils.py: dump_pickle_to_hdf / dump_state).
   A dataset is a sequence of cells <<version, offset>>.  h5py semantics
   of the three operations the code uses are modelled:
     create_dataset(shape=n)  -> n cells (about to be written)
     resize((n,))             -> keeps the common prefix, drops the rest,
                                 new cells hold garbage (<<0,0>>)
     dset[:] = data           -> requires len(data) = len(dset), else raises *)
EXTENDS Naturals, Sequences, TLC

CONSTANTS Sizes, Depth, ResizeOnChange   \* ResizeOnChange = FALSE is the "resize dropped" deviation

VARIABLES dset, ver, last, hist, pc
vars == <<dset, ver, last, hist, pc>>

NoDset == <<>>
Init == dset = NoDset /\ ver = 0 /\ last = 0 /\ hist = <<>> /\ pc = "idle"

Data(v, n) == [i \in 1..n |-> <<v, i>>]
Resize(d, n) == [i \in 1..n |-> IF i <= Len(d) THEN d[i] ELSE <<0, 0>>]

Write(n) ==
  /\ pc = "idle" /\ Len(hist) < Depth
  /\ ver' = ver + 1 /\ last' = n /\ hist' = Append(hist, n)
  /\ LET target == IF dset = NoDset /\ ver = 0 THEN Data(0, n)           \* create_dataset
                   ELSE IF n # Len(dset) /\ ResizeOnChange THEN Resize(dset, n)
                   ELSE dset
     IN IF Len(target) = n
          THEN dset' = Data(ver + 1, n) /\ pc' = "idle"
          ELSE dset' = target /\ pc' = "raised"                           \* shape mismatch

Next == \E n \in Sizes : Write(n)
Spec == Init /\ [][Next]_vars

\* C12: never a truncated or stale-suffixed payload
BlobExact == (ver > 0 /\ pc = "idle") => dset = Data(ver, last)
NeverRaises == pc # "raised"
\* export every maximal behaviour for replay on the real dump_state
Export == (Len(hist) = Depth) => PrintT(<<"BEHAVIOUR", hist>>)
=============================================================================
