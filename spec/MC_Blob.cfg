SPECIFICATION Spec
CONSTANTS
  Sizes = {1, 2, 3}
  Depth = 5
  ResizeOnChange = TRUE
INVARIANT BlobExact
INVARIANT NeverRaises
CONSTRAINT Export
