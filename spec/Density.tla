------------------------------ MODULE Density ------------------------------
(* Density book-keeping of the flow wrappers (src/aspire/flows/torch/flows.py,
   src/aspire/flows/jax/flows.py, src/aspire/flows/base.py) around a data
   transform T with log-Jacobian J:

      log_prob(x)             = base(T(x)) + J_T(x)
      sample_and_log_prob(n)  = ( T^-1(x') ,  base(x') - J_{T^-1}(x') )   for x' ~ base

   Densities are symbolic sums of signed terms.  With the bijection laws of
   Pipeline.tla (T(T^-1(x')) = x',  J_{T^-1}(x') = - J_T(T^-1(x'))) the
   specification derives that both paths give the same log-density
   (SampleEvalAgree), that a transform with constant log-Jacobian c shifts
   *both* by +c (JacobianIncluded, the sign table the harness replays with a
   fake transform), and enumerates the configuration cells that are
   replayed on the real back-ends.  Normalisation (integral = 1) is derived,
   not integrated: base density normalised (trusted) + bijection with exact
   Jacobian (C04) + the sign table below.                                  *)
EXTENDS Integers, FiniteSets, Sequences, SequencesExt, Json, IOUtils, TLC

\* a symbolic log-density: set of <<term, sign>>
LogProbAt(x) == {<<"base@T(x)", 1>>, <<"J_T@x", 1>>}
\* the value returned with a draw x' mapped to x = T^-1(x')
SampleLogQ == {<<"base@x'", 1>>, <<"J_Tinv@x'", 0 - 1>>}
\* rewriting with the bijection laws at x = T^-1(x')
Rewrite(S) == { IF p[1] = "base@T(x)" THEN <<"base@x'", p[2]>>
                ELSE IF p[1] = "J_T@x" THEN <<"J_Tinv@x'", 0 - p[2]>>
                ELSE p : p \in S }
SampleEvalAgree == Rewrite(LogProbAt("x")) = SampleLogQ

\* wrapper variants (a dropped or sign-flipped Jacobian in either path) do not satisfy the law
Variants == { {<<"base@T(x)", 1>>}, {<<"base@T(x)", 1>>, <<"J_T@x", 0 - 1>>} }
VariantsRejected == \A v \in Variants : Rewrite(v) # SampleLogQ

\* constant log-Jacobian c of an identity transform: forward reports +c, inverse reports -c
ShiftLogProb(c) == c                \* + J_T
ShiftSampleLogQ(c) == 0 - (0 - c)   \* - J_{T^-1} = -(-c)
JacobianIncluded == \A c \in {0 - 3, 0, 5} : ShiftLogProb(c) = c /\ ShiftSampleLogQ(c) = c

ASSUME SampleEvalAgree /\ VariantsRejected /\ JacobianIncluded

\* refit: the same flow object is fitted twice (first on other data), as Aspire.fit does on a second call
\* names: how the declared bounds reach the transform.  The bounds belong to parameter *names*:
\*   "sorted"   parameter list in alphabetical order, bounds mapping in the same order
\*   "unsorted" parameter list NOT in alphabetical order (HDF5 returns keys alphabetically on reload)
\*   "revdict"  bounds mapping written in the reverse order of the parameter list
\* scale: width of the declared support of the second parameter - order one, tiny (2e-5: a clipping
\* margin must be a fraction of the width, not an absolute distance), huge (4e6), or "free": the
\* second parameter has no finite bounds, so bounded and unbounded parameters are mixed; "offset":
\* an interval narrow relative to where it sits ([1000, 1000.5], a time stamp)
Cells == { [backend |-> b, bounded |-> bt, affine |-> a, dtype |-> d, state |-> s, refit |-> r, names |-> nm, scale |-> sc] :
             b \in {"zuko", "flowjax"}, bt \in {"logit", "probit", "off"}, a \in BOOLEAN,
             d \in {"float32", "float64"}, s \in {"untrained", "trained", "reloaded"}, r \in BOOLEAN,
             nm \in {"sorted", "unsorted", "revdict"}, sc \in {"unit", "tiny", "huge", "free", "offset"} }
ASSUME PrintT(<<"NCASES", Cardinality(Cells)>>)
ASSUME JsonSerialize(IOEnv.OUT_FILE, [cells |-> SetToSeq(Cells), shift_log_prob |-> ShiftLogProb(5),
                                       shift_sample_log_q |-> ShiftSampleLogQ(5)])
VARIABLE cur
Init == cur \in Cells
Next == UNCHANGED cur
Spec == Init /\ [][Next]_cur
=============================================================================
