---------------------------- MODULE Lifecycle ----------------------------
(* The Aspire object, its checkpoint file and the automatic-checkpoint
   context (src/aspire/aspire.py: fit, sample_posterior, auto_checkpoint,
   resume_from_file, _build_aspire_from_file), as an operation-sequence
   model: every history of fit / refit / sample / enter / leave / resume
   operations on one HDF5 file up to a depth bound.

   Proposals are identified by the data set they were fitted on ("A", "B").
   A stored checkpoint records which proposal its particles were weighted
   under (`under`), the sampler class that wrote it and whether it is the
   final checkpoint of a finished run.

   The branch structure of the code is transcribed action by action.  Named
   deviations of the implementation are constants (TRUE = repaired
   behaviour) so that the model describes the tree as it is:
     RewriteFlow      sample_posterior replaces a /flow that is already in the file
     DropStaleCkpt    a run that does not resume removes a /checkpoint left by an earlier run,
                      and fit(overwrite=True) removes it together with the flow it replaces
     MapClassName     resume_from_file maps a checkpoint's sampler class name to a sampler type
     ResumeSavesConfig  the instance rebuilt by resume_from_file rewrites /aspire_config when it samples
   Known finding (kept as a ghost flag so that TLC explores past it): a run resumed from a
   *final* checkpoint returns the stored population untouched, so after a refit the file's
   proposal is replaced while the population is still weighted under the old one - the
   checkpoint carries no identity of its proposal.                                      *)
EXTENDS Naturals, Sequences, FiniteSets, TLC

CONSTANTS MaxOps, RewriteFlow, DropStaleCkpt, MapClassName, ResumeSavesConfig,
          Narrow    \* TRUE: a deeper exploration of a narrower alphabet (context-driven paths only, no faults,
                    \* no resume_from_file) - the histories that need seven and more operations

Data == {"A", "B"}
NoCk == [sampler |-> "none", under |-> "none", final |-> FALSE, it |-> 0, cfgsaved |-> FALSE, refit |-> FALSE]
\* side: the defaults point at *another* file (a nested auto_checkpoint on a second file): what is written
\* under them does not touch the file this model follows, but the flags are kept all the same
NoDefaults == [on |-> FALSE, save_config |-> FALSE, saved_config |-> FALSE, saved_flow |-> FALSE, perm |-> FALSE, side |-> FALSE]
NoCfg == "absent"     \* /aspire_config missing; otherwise its sampler_type: "none" | "importance" | "smc"

VARIABLES
  flow,       \* proposal held by the instance: "none" | "A" | "B"
  lastType,   \* _last_sampler_type: "unset" | "importance" | "smc"
  defaults,   \* _checkpoint_defaults (path is always the one file)
  ctx,        \* stack of saved defaults (auto_checkpoint nesting)
  primed,     \* resume priming: [ck, type]  (ck = NoCk when not primed)
  fcfg, fflow, fck,   \* the file: config / flow / checkpoint
  nops, op,   \* operation counter and the last operation with its outcome
  tainted,    \* ghost: the instance was rebuilt from a file whose config did not name the checkpoint's writer
  kf          \* ghost: who wrote /aspire_config last ("nobody" | "fit" | "sample")

vars == <<flow, lastType, defaults, ctx, primed, fcfg, fflow, fck, nops, op, tainted, kf>>

Init ==
  /\ flow = "none" /\ lastType = "unset" /\ defaults = NoDefaults /\ ctx = <<>>
  /\ primed = [ck |-> NoCk, type |-> "none"]
  /\ fcfg = NoCfg /\ fflow = "none" /\ fck = NoCk
  /\ nops = 0 /\ op = <<"init">> /\ tainted = FALSE /\ kf = "nobody"

CfgType == IF lastType = "unset" THEN "none" ELSE lastType
SamplerOf(t) == IF t = "smc" THEN "MiniPCNSMC" ELSE IF t = "emcee_smc" THEN "EmceeSMC"
                ELSE IF t = "importance" THEN "ImportanceSampler" ELSE "none"
SamplerTypes == {"importance", "smc", "emcee_smc"}

(* ---- fit(samples, checkpoint_path, overwrite) ----------------------- *)
Fit(d, usePath, ow) ==
  /\ nops < MaxOps /\ nops' = nops + 1 /\ op' = <<"fit", d, usePath, ow, "ok">>
  /\ ~(usePath /\ defaults.on /\ defaults.side)      \* (an explicit path inside a context on another file: not modelled)
  /\ flow' = d
  /\ LET anyp == usePath \/ defaults.on                    \* some file is written
         path == usePath \/ (defaults.on /\ ~defaults.side)  \* the file this model follows is written
         dflt == defaults
         save_config == IF usePath THEN TRUE ELSE defaults.save_config
         saved_config == defaults.saved_config
     IN /\ defaults' = IF anyp /\ save_config /\ ~saved_config /\ defaults.on
                          THEN [dflt EXCEPT !.saved_config = TRUE] ELSE dflt
        /\ IF path
             THEN /\ fcfg' = IF save_config /\ ~saved_config THEN CfgType ELSE fcfg
                  /\ fflow' = IF fflow = "none" \/ ow THEN d ELSE fflow
                  /\ fck' = IF DropStaleCkpt /\ fflow # "none" /\ ow THEN NoCk ELSE fck
             ELSE UNCHANGED <<fcfg, fflow, fck>>
  /\ kf' = IF (usePath \/ (defaults.on /\ ~defaults.side))
                /\ (IF usePath THEN TRUE ELSE defaults.save_config) /\ ~defaults.saved_config
             THEN "fit" ELSE kf
  /\ UNCHANGED <<lastType, ctx, primed, tainted>>

(* ---- sample_posterior(sampler=kind, checkpoint_path, fault) ---------- *)
\* fault: "none" | "early" (first likelihood call) | "mid" (after the first checkpoint of this run)
Sample(kind, usePath, fault) ==
  /\ nops < MaxOps /\ nops' = nops + 1
  /\ ~(usePath /\ defaults.on /\ defaults.side)
  /\ flow # "none"
  \* a run resumed from a final checkpoint never calls the likelihood: nothing to interrupt
  /\ ~(fault = "early" /\ primed.ck # NoCk /\ primed.ck.final
        /\ (IF kind = "importance" /\ primed.type # "none" THEN primed.type ELSE kind) # "importance")
  /\ LET stype == IF kind = "importance" /\ primed.type # "none" THEN primed.type ELSE kind
         resuming == primed.ck # NoCk
         valid == stype \in SamplerTypes
         \* importance sampler has no resume_from parameter
         typeErr == valid /\ stype = "importance" /\ resuming
         anyp == usePath \/ defaults.on
         path == usePath \/ (defaults.on /\ ~defaults.side)
         save_config == IF usePath THEN TRUE ELSE defaults.save_config
         supports == stype # "importance"
         \* a checkpoint resumed by another sampler class than the one that wrote it (the caller asked
         \* for it: resume_from_file(..., sampler=...) or an explicit sampler on a primed instance): from
         \* here on "the sampler that wrote the checkpoint" is not one sampler - outside ConfigNamesWriter
         mix == resuming /\ path /\ SamplerOf(stype) # primed.ck.sampler
     IN IF ~valid THEN
          /\ op' = <<"sample", kind, usePath, fault, "ValueError">>
          /\ UNCHANGED <<flow, lastType, defaults, ctx, primed, fcfg, fflow, fck, tainted, kf>>
        ELSE
          \* init_sampler, _last_sampler_type, then the pre-sampling file block
          /\ lastType' = stype
          /\ LET cfg1 == IF path /\ save_config THEN stype ELSE fcfg
                 \* (repair) the proposal in use is always (re)written before sampling starts
                 writeFlow == path /\ (RewriteFlow \/ (~defaults.saved_flow /\ fflow = "none"))
                 flow1 == IF writeFlow THEN flow ELSE fflow
                 \* a run that does not resume starts on a file holding an old checkpoint
                 \* known finding "refit_then_resume": a checkpoint is resumed under another proposal
                 \* than the one its particles were weighted under
                 stale == resuming /\ fck # NoCk /\ fck.under # flow
                 ck0 == IF DropStaleCkpt /\ path /\ ~resuming THEN NoCk
                        ELSE IF path /\ stale /\ fck # NoCk THEN [fck EXCEPT !.refit = TRUE] ELSE fck
                 d1 == IF defaults.on
                         THEN [defaults EXCEPT !.saved_config = (@ \/ (anyp /\ save_config)),
                                               !.saved_flow = (@ \/ (IF path THEN writeFlow ELSE anyp /\ RewriteFlow))]
                         ELSE defaults
             IN IF typeErr \/ (fault = "early") THEN
                  \* the exception leaves sample_posterior before any checkpoint of this run
                  /\ op' = <<"sample", kind, usePath, fault, IF typeErr THEN "TypeError" ELSE "fault">>
                  /\ fcfg' = cfg1 /\ fflow' = flow1 /\ fck' = ck0 /\ defaults' = d1
                  \* (a TypeError run re-writes the sampler type it was primed with: the
                  \*  configuration stays as inconsistent as the known finding left it)
                  /\ kf' = IF path /\ save_config /\ ~typeErr THEN "sample" ELSE kf
                  /\ tainted' = (tainted \/ mix)
                  /\ UNCHANGED <<flow, ctx, primed>>
                ELSE IF stype = "importance" THEN
                  /\ op' = <<"sample", kind, usePath, fault, "ok">>
                  /\ fcfg' = cfg1 /\ fflow' = flow1 /\ fck' = ck0 /\ defaults' = d1
                  /\ kf' = IF path /\ save_config THEN "sample" ELSE kf
                  /\ tainted' = (tainted \/ mix)
                  /\ UNCHANGED <<flow, ctx, primed>>
                ELSE
                  \* SMC: two iterations, cadence 1.  A fresh run weights under the current proposal;
                  \* a run resumed from a non-final checkpoint re-weights after its first new iteration;
                  \* a run resumed from a final checkpoint returns the population untouched.
                  LET src == primed.ck
                      fromFinal == resuming /\ src.final
                      midCk == [sampler |-> SamplerOf(stype), under |-> flow, final |-> FALSE, it |-> 1,
                                cfgsaved |-> save_config, refit |-> FALSE]
                      finCk == [sampler |-> SamplerOf(stype), under |-> IF fromFinal THEN src.under ELSE flow,
                                final |-> TRUE, it |-> 2, cfgsaved |-> save_config,
                                \* ghost for the known finding: untouched population, other proposal
                                refit |-> (fromFinal /\ src.under # flow)]
                      canMid == ~(resuming)      \* a resumed run has at most one iteration left: no room for a mid fault
                  IN /\ (fault = "mid") => canMid
                     /\ op' = <<"sample", kind, usePath, fault, IF fault = "mid" THEN "fault" ELSE "ok">>
                     /\ fcfg' = cfg1 /\ fflow' = flow1 /\ defaults' = d1
                     /\ fck' = IF path THEN (IF fault = "mid" THEN midCk ELSE finCk) ELSE ck0
                     /\ kf' = IF path /\ save_config THEN "sample" ELSE kf
                     /\ tainted' = (tainted \/ mix)
                     /\ UNCHANGED <<flow, ctx, primed>>

(* ---- with aspire.auto_checkpoint(path): ... -------------------------- *)
EnterAuto(save_config, side) ==
  /\ nops < MaxOps /\ nops' = nops + 1 /\ op' = <<"enter", save_config, side>>
  /\ Len(ctx) < 2
  /\ ctx' = Append(ctx, defaults)
  /\ defaults' = [on |-> TRUE, save_config |-> save_config, saved_config |-> FALSE, saved_flow |-> FALSE, perm |-> FALSE, side |-> side]
  /\ UNCHANGED <<flow, lastType, primed, fcfg, fflow, fck, tainted, kf>>

ExitAuto ==
  /\ nops < MaxOps /\ nops' = nops + 1 /\ op' = <<"exit">>
  /\ Len(ctx) > 0
  /\ defaults' = ctx[Len(ctx)]
  /\ ctx' = SubSeq(ctx, 1, Len(ctx) - 1)
  /\ UNCHANGED <<flow, lastType, primed, fcfg, fflow, fck, tainted, kf>>

(* ---- Aspire.resume_from_file(path, sampler=ov) ------------------------ *)
\* ov: the caller may name the sampler to resume with ("none": not given).  The override decides which
\* sampler the next sample_posterior() uses; it does not change what the rebuilt instance remembers
\* about the file (its last sampler type is the one recorded in the configuration).
ClassToType(c) == IF MapClassName /\ c = "MiniPCNSMC" THEN "smc" ELSE c
ResumeFromFile(ov) ==
  /\ ~Narrow
  /\ nops < MaxOps /\ nops' = nops + 1
  /\ Len(ctx) = 0
  /\ IF fcfg = NoCfg \/ fflow = "none"
       THEN /\ op' = <<"resume", ov, "ValueError">>
            /\ UNCHANGED <<flow, lastType, defaults, ctx, primed, fcfg, fflow, fck, tainted, kf>>
       ELSE /\ op' = <<"resume", ov, "ok">>
            /\ flow' = fflow
            \* (repair) the rebuilt instance remembers the sampler type recorded in the file
            /\ lastType' = IF ResumeSavesConfig /\ fcfg \in SamplerTypes THEN fcfg ELSE "unset"
            /\ primed' = IF fck = NoCk THEN [ck |-> NoCk, type |-> "none"]
                         ELSE [ck |-> fck, type |-> IF ov # "none" THEN ov
                                                    ELSE IF fcfg # "none" THEN fcfg ELSE ClassToType(fck.sampler)]
            /\ defaults' = [on |-> TRUE, save_config |-> ResumeSavesConfig, saved_config |-> FALSE, saved_flow |-> FALSE, perm |-> TRUE, side |-> FALSE]
            /\ ctx' = <<>>
            \* rebuilt from a file that already was inconsistent for one of the excluded reasons
            \* (any other reason would have violated the invariant in this very state)
            /\ tainted' = (fck # NoCk /\ SamplerOf(fcfg) # fck.sampler)
            /\ UNCHANGED <<fcfg, fflow, fck, kf>>

Next ==
  \/ \E d \in Data, p \in (IF Narrow THEN {FALSE} ELSE BOOLEAN), ow \in (IF Narrow THEN {FALSE} ELSE BOOLEAN) : Fit(d, p, ow)
  \/ \E k \in {"importance", "smc"}, p \in (IF Narrow THEN {FALSE} ELSE BOOLEAN),
        f \in (IF Narrow THEN {"none"} ELSE {"none", "early", "mid"}) : Sample(k, p, f)
  \/ \E sc \in (IF Narrow THEN {TRUE} ELSE BOOLEAN), side \in BOOLEAN : EnterAuto(sc, side)
  \/ ExitAuto
  \* the override names a sampler that can resume the stored checkpoint (another SMC class)
  \/ \E ov \in {"none", "emcee_smc"} : ResumeFromFile(ov)

Spec == Init /\ [][Next]_vars

(* ---- C14 -------------------------------------------------------------- *)
\* the two clauses are separate invariants so that counter-examples are classified.
\* A file without /aspire_config exists only because the user asked for save_config=False:
\* the property speaks about "the stored configuration", so that case is outside it.  A
\* configuration without sampler_type (written by fit) names the writer through the
\* checkpoint's own record iff resume_from_file can map that record to a sampler type.
ProposalMatchesCheckpoint == (fck # NoCk /\ fflow # "none" /\ ~fck.refit) => fflow = fck.under
\* Likewise a checkpoint written while the user had switched configuration saving off
\* (auto_checkpoint(save_config=False)) is outside the clause: nothing may be stored then.
\* Known finding "fit_config_type": fit() rewrites /aspire_config with the instance's last
\* sampler type while the file still holds a checkpoint written by another sampler.
ConfigNamesWriter ==
  (fck # NoCk /\ fcfg # NoCfg /\ fck.cfgsaved /\ kf # "fit" /\ ~tainted) =>
     IF fcfg = "none" THEN MapClassName ELSE SamplerOf(fcfg) = fck.sampler
FileSelfConsistent == ProposalMatchesCheckpoint /\ ConfigNamesWriter
\* C12 at this level: once sampling with a file has started, config and flow are in it
ConfigAndFlowFirst ==
  (op[1] = "sample" /\ op[3] = TRUE /\ op[5] \in {"fault", "ok"}) => (fcfg # NoCfg /\ fflow # "none")
=============================================================================
