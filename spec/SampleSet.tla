---------------------------- MODULE SampleSet ----------------------------
(* Plain-array reference model of aspire's sample sets
   (src/aspire/samples.py: BaseSamples, Samples, SMCSamples) under
   selection, partition+concatenation, pickling, dictionary round trips and
   namespace / dtype conversions.

   A sample set is  [cls, ns, width, fields, rows, ev]  where `rows` is the
   sequence of row identities (row r has coordinates, log-likelihood,
   log-prior and log-proposal all determined by r, so a mis-indexed field is
   visible), `fields` the optional per-sample fields present, and `ev` says
   what evidence the object carries:
      "none"      no evidence
      "own"       the evidence computed from the weights of the *original* rows
                  (a weighted Samples object) - selection must carry it, not recompute it
      "attached"  a value attached from outside (SMC result, or a weighted set constructed with
                  an explicit evidence); "attached0" is the same with the value 0.0 exactly
                  (a normalised target: log Z = 0 is a value, not "no evidence")
   The effect of every operation below *is* the property (C16, C15): the
   same selection of every field, partition restores, codecs are identities
   in the same namespace, conversions keep rows, fields, width.

   TLC enumerates every (initial object, operation sequence) case with the
   expected result as an initial state; the harness replays each on the real
   classes.                                                               *)
EXTENDS Integers, Sequences, FiniteSets, SequencesExt, FiniteSetsExt, Json, IOUtils, TLC

VARIABLE cur      \* the case under examination (one TLC state per case)

CONSTANTS NRows,       \* rows of the initial object (ids 1..NRows)
          Classes,     \* subset of {"Base", "Samples", "SMC"}
          Namespaces,  \* subset of {"numpy", "torch", "jax"}
          Widths,      \* subset of {32, 64}
          Depth,       \* operations per case (1 or 2)
          Mode         \* "algebra" (C16) | "convert" (C15)

FieldSets == SUBSET {"ll", "lp", "lq"}
AllFields == {"ll", "lp", "lq"}

InitObj(c, ns, w, fs, ev) ==
  [cls |-> c, ns |-> ns, width |-> w, fields |-> fs, rows |-> [i \in 1..NRows |-> i], ev |-> ev, oned |-> FALSE]

EvChoices(c, fs) == IF c = "Samples" /\ fs = AllFields THEN {"own", "attached", "attached0"}
                    ELSE IF c = "SMC" THEN {"attached", "attached0"} ELSE {"none"}
Inits == UNION {{InitObj(c, ns, w, fs, ev) : ev \in EvChoices(c, fs)} :
                  c \in Classes, ns \in Namespaces, w \in Widths, fs \in FieldSets}

(* ---- selectors (0-based indices, Python semantics) ------------------- *)
RECURSIVE UpTo(_, _, _)
UpTo(a, b, st) == IF a >= b THEN <<>> ELSE <<a>> \o UpTo(a + st, b, st)
RECURSIVE DownTo(_, _, _)
DownTo(a, b, st) == IF a <= b THEN <<>> ELSE <<a>> \o DownTo(a - st, b, st)

SliceIdx(a, b, st) == IF st > 0 THEN UpTo(a, b, st) ELSE DownTo(a, b, 0 - st)

Slices(n) == {[form |-> "slice", a |-> a, b |-> b, st |-> st, idx |-> SliceIdx(a, b, st)] :
                 a \in 0..n, b \in 0..n, st \in {1, 2}}
              \cup
              {[form |-> "slice", a |-> a, b |-> b, st |-> st, idx |-> SliceIdx(a, b, st)] :
                 a \in 0..(n - 1), b \in (0 - 1)..(n - 1), st \in {0 - 1, 0 - 2}}
Ints(n) == {[form |-> "int", a |-> i, b |-> 0, st |-> 0, idx |-> <<IF i < 0 THEN n + i ELSE i>>] :
              i \in ((0 - n)..(n - 1))}
Masks(n) == {[form |-> "mask", a |-> 0, b |-> 0, st |-> 0,
              idx |-> SetToSortSeq(S, <)] : S \in (SUBSET (0..(n - 1))) \ {{}}}
IndexArrays(n) == {[form |-> "index", a |-> 0, b |-> 0, st |-> 0, idx |-> q] :
                      q \in UNION {[1..k -> 0..(n - 1)] : k \in 1..3}}

\* the same mask / index vector given as a plain Python list instead of an array of the namespace
AsList(S, form) == {[s EXCEPT !.form = form] : s \in S}
NonEmpty(S) == {s \in S : Len(s.idx) > 0}
Selectors(n) == NonEmpty(Slices(n)) \cup Ints(n) \cup Masks(n) \cup IndexArrays(n)
                \cup AsList(Masks(n), "masklist") \cup AsList(IndexArrays(n), "indexlist")

\* depth-2 cases use a reduced selector set
FewSelectors(n) == {s \in Selectors(n) :
                      \/ s.form = "int" /\ s.a = 0
                      \/ s.form = "slice" /\ <<s.a, s.b, s.st>> \in {<<1, n, 1>>, <<0, n, 2>>, <<n - 1, 0 - 1, 0 - 1>>}
                      \/ s.form \in {"mask", "masklist"} /\ Len(s.idx) = n - 1 /\ s.idx[1] = 1
                      \/ s.form \in {"index", "indexlist"} /\ s.idx = <<n - 1, 0, 0>>}

(* ---- operations ------------------------------------------------------ *)
Select(o, s) ==
  [o EXCEPT !.rows = [k \in 1..Len(s.idx) |-> o.rows[s.idx[k] + 1]],
            !.oned = (s.form = "int")]

\* cut the rows into consecutive non-empty pieces and concatenate them again
Cuts(n) == {c \in SUBSET (1..(n - 1)) : TRUE}
\* concatenate() takes no evidence argument: evidence that is *derivable* from the rows (a weighted
\* set holding exactly its original rows) is reproduced by re-computation; evidence that was merely
\* carried (after a selection) or attached from outside is not compared after concatenation
PartConcat(o) ==
  [o EXCEPT !.ev = IF o.ev = "own" /\ o.rows = [i \in 1..NRows |-> i] THEN "own" ELSE "none"]

\* tables by number of rows (constant-level: evaluated once)
SelTable == [n \in 1..NRows |-> Selectors(n)]
FewTable == [n \in 1..NRows |-> FewSelectors(n)]
CutTable == [n \in 1..NRows |-> Cuts(n)]
FewCutTable == [n \in 1..NRows |-> {c2 \in Cuts(n) : Cardinality(c2) = 1}]

Ops(o, few) ==
  LET n == Len(o.rows) IN
  IF o.oned \/ n = 0 THEN {}
  ELSE IF Mode = "algebra" THEN
       {[op |-> "select", sel |-> s, res |-> Select(o, s)] : s \in (IF few THEN FewTable[n] ELSE SelTable[n])}
       \cup {[op |-> "partconcat", cuts |-> SetToSortSeq(c, <), res |-> PartConcat(o)] :
               c \in (IF few THEN FewCutTable[n] ELSE CutTable[n])}
       \cup {[op |-> "pickle", res |-> o]}
       \cup {[op |-> "dict", flat |-> f, res |-> o] : f \in BOOLEAN}
  ELSE \* conversions
       {[op |-> "to_namespace", ns |-> t, dt |-> 0, res |-> [o EXCEPT !.ns = t]] : t \in {"numpy", "torch", "jax"}}
       \* to_namespace(xp, dtype=...) of the classes that accept a precision: the target may be the
       \* namespace the set already lives in (then only the precision changes)
       \cup (IF o.cls = "Samples" THEN {}
             ELSE {[op |-> "to_namespace", ns |-> t, dt |-> d, res |-> [o EXCEPT !.ns = t, !.width = d]] :
                     t \in {"numpy", "torch", "jax"}, d \in {32, 64}})
       \cup {[op |-> "to_numpy", res |-> [o EXCEPT !.ns = "numpy"]]}
       \cup {[op |-> "from_samples", ns |-> t, dt |-> d,
              \* from_samples is a (possibly class-changing) constructor from the four array fields:
              \* evidence that is derivable is reproduced, evidence attached from outside is not compared
              res |-> [o EXCEPT !.ns = t, !.width = IF d = 0 THEN o.width ELSE d,
                                !.ev = IF o.ev = "own" /\ o.cls = "Samples" THEN "own" ELSE "none"]] :
                t \in {"numpy", "torch", "jax"}, d \in {0, 32, 64}}
       \cup (IF few THEN {} ELSE {[op |-> "pickle", res |-> o]})

\* The case space is the set of initial states: every (initial object, operation sequence) with
\* the expected result.  (An existential Init lets TLC enumerate it directly, in parallel; building it
\* as one set of ~60 000 records costs minutes in set normalisation.)  The states are dumped by TLC
\* and replayed on the real classes.
InitCases ==
  \/ \E o \in Inits : \E p \in Ops(o, FALSE) : cur = [init |-> o, ops |-> <<p>>, final |-> p.res]
  \/ /\ Depth >= 2
     /\ \E o \in Inits : \E p \in Ops(o, TRUE) : \E q \in Ops(p.res, TRUE) :
           cur = [init |-> o, ops |-> <<p, q>>, final |-> q.res]

(* ---- laws of the reference itself ------------------------------------ *)
\* selection never invents rows and keeps the field set, class, namespace and width
SelectSound == \A c \in {cur} : \A k \in 1..Len(c.final.rows) : c.final.rows[k] \in 1..NRows
MetaKept == \A c \in {cur} :
               /\ c.final.cls = c.init.cls /\ c.final.fields = c.init.fields
               /\ (Mode = "algebra" => (c.final.ns = c.init.ns /\ c.final.width = c.init.width))
IdentityOps == \A c \in {cur} :
                 (\A k \in 1..Len(c.ops) : c.ops[k].op \in {"pickle", "dict", "partconcat", "to_namespace", "to_numpy", "from_samples"})
                    => c.final.rows = c.init.rows


\* one TLC state per case: the laws are state invariants evaluated on every case
Init == InitCases
Next == UNCHANGED cur
Spec == Init /\ [][Next]_cur
=============================================================================
