---- MODULE MC_Resample ----
EXTENDS Resample
QuickKs == {-4, 0, 4, 99}
DeepKs == {-8, -4, 0, 4, 8, 99}
\* fine ladder: Den = 2^21, log-weights of magnitude up to 12 * 2^21 * ln 2 ~ 1.7e7
FineDen == 2097152
FineKs == {0, 4 * FineDen, 12 * FineDen, 99}
FineBetas == {0, 1, 524288, 524289, 1048576, 1048578}
====
