---- MODULE MC_Resample ----
EXTENDS Resample
QuickKs == {-4, 0, 4, 99}
DeepKs == {-8, -4, 0, 4, 8, 99}
====
