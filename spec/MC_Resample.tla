---- MODULE MC_Resample ----
EXTENDS Resample
QuickKs == {-4, 0, 4}
DeepKs == {-8, -4, 0, 4, 8}
====
