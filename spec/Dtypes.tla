------------------------------ MODULE Dtypes ------------------------------
(* Case space of the dtype helpers (src/aspire/utils.py: resolve_dtype,
   convert_dtype, encode_dtype / decode_dtype): every accepted spelling of a
   floating-point precision x source namespace x target namespace, with the
   width the result must have.  The helper's contract is the identity on
   precision: whatever the spelling, the resolved object denotes the same
   float width in the namespace it is resolved for.                        *)
EXTENDS Naturals, FiniteSets, Sequences, SequencesExt, Json, IOUtils, TLC

VARIABLE cur      \* the case under examination (one TLC state per case)

Namespaces == {"numpy", "torch", "jax"}
Widths == {32, 64}
\* how the user may spell a precision
Spellings == {"name",          \* "float32"
              "qualified",     \* "torch.float32", "numpy.float32", "jax.numpy.float32"
              "np_type",       \* numpy.float32 (scalar type)
              "np_dtype",      \* numpy.dtype("float32")
              "native"}        \* dtype object of the source namespace

ResolveCases == {[fn |-> "resolve", spelling |-> s, src |-> a, dst |-> b, width |-> w, expect |-> w] :
                   s \in Spellings, a \in Namespaces, b \in Namespaces, w \in Widths}
ConvertCases == {[fn |-> "convert", spelling |-> "native", src |-> a, dst |-> b, width |-> w, expect |-> w] :
                   a \in Namespaces, b \in Namespaces, w \in Widths}
CodecCases == {[fn |-> "codec", spelling |-> "native", src |-> a, dst |-> a, width |-> w, expect |-> w] :
                   a \in Namespaces, w \in Widths}
Cases == ResolveCases \cup ConvertCases \cup CodecCases

PrecisionIsIdentity == \A c \in {cur} : c.expect = c.width
ASSUME PrintT(<<"NCASES", Cardinality(Cases)>>)
ASSUME JsonSerialize(IOEnv.OUT_FILE, SetToSeq(Cases))

\* one TLC state per case: the laws are state invariants evaluated on every case
Init == cur \in Cases
Next == UNCHANGED cur
Spec == Init /\ [][Next]_cur
=============================================================================
