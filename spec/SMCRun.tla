----------------------------- MODULE SMCRun -----------------------------
(* The SMC loop of aspire (src/aspire/samplers/smc/base.py: SMCSampler.sample)
   with checkpointing, interruption and resume
   (src/aspire/samplers/base.py: build_checkpoint_state /
   restore_from_checkpoint / default_file_checkpoint_callback), shaped like
   the implementation: one action per block of sample().

   The live sampler is one record `s`.  All state transformers are
   operators  Do*(s, ...)  on that record so that SMCTrace.tla can drive
   the very same transformers with parameters bound from events observed
   on real runs.

   Populations are abstract terms built from their derivation (parent,
   temperature, random-stream position), so equality of populations is
   equality of derivations.  Diagnostics are provenance triples
   <<population, beta_from, beta_to>>.

   PayloadFields / RestoredFields are *extracted from the code* by the
   harness (keys of a real checkpoint payload; live fields that differ
   before/after a real restore_from_checkpoint) and written into the cfg.
   ReappendOnResume is a named deviation of the implementation.          *)
EXTENDS Naturals, Sequences, FiniteSets, TLC

CONSTANTS K,               \* grid value of beta = 1
          MaxIter,         \* model bound on loop iterations
          ArgSet,          \* set of argument records [every, nfinal, maxn, path]
          MaxCrashes,
          Routes,          \* subset of {"bytes", "dict", "path", "file"}
          PayloadFields,   \* extracted: which live fields the payload carries
          RestoredFields,  \* extracted: which live fields a restore sets from the payload
          ReappendOnResume, \* deviation: re-entry appends the restored population again
          CapAwareResume    \* FALSE = deviation: resuming a run that had stopped at max_n_steps
                            \*         with beta < 1 performs one more iteration

VARIABLES args, s, disk, lastPayload, lastWritten, full, crashes, log, firstResult

vars == <<args, s, disk, lastPayload, lastWritten, full, crashes, log, firstResult>>

NoBlob == [none |-> TRUE]
NoResult == [none |-> TRUE]
EmptyHist == [beta |-> <<>>, ess |-> <<>>, ratio |-> <<>>, var |-> <<>>, acc |-> <<>>, pops |-> <<>>]

InitialMinStep(a) == IF a.maxn > 0 THEN 1 ELSE 0

Fresh(a) == [pc |-> "start", iter |-> 0, beta |-> 0, pop |-> <<"none">>, size |-> 0,
             rng |-> 0, minStep |-> InitialMinStep(a), hist |-> EmptyHist,
             nlike |-> 0, resumedFrom |-> 0, resumed |-> FALSE, store |-> TRUE,
             ckpts |-> <<>>, startIter |-> 0, result |-> NoResult]

Dead(a) == [Fresh(a) EXCEPT !.pc = "dead"]

CoreFields == {"iter", "beta", "pop", "size", "rng", "minStep", "hist"}
Core(t) == [f \in CoreFields |-> t[f]]
LastOf(q) == q[Len(q)]
BetaAt(h, t) == IF t = 0 THEN 0 ELSE h.beta[t]

(* ---- state transformers (shared with SMCTrace) ---------------------- *)
DoStart(t, pop0, n) ==
  [t EXCEPT !.pc = "top", !.pop = pop0, !.size = n, !.nlike = @ + n,
            !.hist.pops = IF t.store THEN <<pop0>> ELSE <<>>]

\* determine_beta + the diagnostics appended right after it
DoTemper(t, b, newMin) ==
  [t EXCEPT !.pc = "resample", !.iter = @ + 1, !.beta = b, !.minStep = newMin,
            !.hist.beta = Append(@, b),
            !.hist.ess = Append(@, <<t.pop, t.beta, b>>),
            !.hist.ratio = Append(@, <<t.pop, t.beta, b>>),
            !.hist.var = Append(@, <<t.pop, t.beta, b>>)]

\* the design model passes derivation terms as `newpop`; the trace spec
\* passes content ids observed at the seams
ResTerm(t, b) == <<"res", t.pop, b, t.rng>>
MutTerm(t, b) == <<"mut", t.pop, b, t.rng>>

DoResample(t, b, n, newpop) ==
  [t EXCEPT !.pc = "kernel", !.pop = newpop, !.size = n, !.rng = @ + 1]

DoKernel(t, b, evals, newpop) ==
  [t EXCEPT !.pc = "eval", !.pop = newpop, !.rng = @ + 1,
            !.hist.acc = Append(@, b), !.nlike = @ + evals]

DoPostEval(t, newpop) == [t EXCEPT !.pc = "append", !.pop = newpop, !.nlike = @ + t.size]

DoAppend(t) ==
  [t EXCEPT !.pc = "ckpt", !.hist.pops = IF t.store THEN Append(@, t.pop) ELSE @]

Payload(t) == [f \in PayloadFields |-> t[f]]

Due(t, a, force) == a.every > 0 /\ (force \/ t.iter % a.every = 0)

DoCkpt(t, a, force) ==
  [t EXCEPT !.pc = IF force THEN "finish" ELSE "exit",
            !.ckpts = IF Due(t, a, force) THEN Append(@, <<t.iter, force>>) ELSE @]

DoExit(t, a, one) ==
  [t EXCEPT !.pc = IF t.beta = one \/ (a.maxn > 0 /\ t.iter >= a.maxn)
                     THEN "enlarge_test" ELSE "top"]

DoEnlargeTest(t, a) ==
  [t EXCEPT !.pc = IF a.nfinal > 0 /\ t.size # a.nfinal THEN "fres" ELSE "evidence"]

DoFinalResample(t, a, newpop) ==
  [t EXCEPT !.pc = "fkernel", !.pop = newpop, !.size = a.nfinal, !.rng = @ + 1]

DoFinalKernel(t, evals, one, newpop) ==
  [t EXCEPT !.pc = "feval", !.pop = newpop, !.rng = @ + 1,
            !.hist.acc = Append(@, one), !.nlike = @ + evals]

DoFinalEval(t, newpop) == [t EXCEPT !.pc = "evidence", !.pop = newpop, !.nlike = @ + t.size]

DoEvidence(t) == [t EXCEPT !.pc = "fckpt"]

DoFinish(t) ==
  [t EXCEPT !.pc = "done",
            !.result = [pop |-> t.pop, size |-> t.size, logz |-> t.hist.ratio,
                        err |-> t.hist.var, hist |-> t.hist, iter |-> t.iter]]

\* restore_from_checkpoint: exactly the extracted fields come from the payload
DoRestore(a, src) ==
  [f \in DOMAIN Fresh(a) |->
     IF f \in RestoredFields /\ f \in DOMAIN src THEN src[f]
     ELSE IF f = "pc" THEN "reinit"
     ELSE IF f = "resumed" THEN TRUE
     ELSE IF f = "resumedFrom" THEN (IF "iter" \in DOMAIN src THEN src.iter ELSE 0)
     ELSE IF f = "startIter" THEN (IF "iter" \in DOMAIN src /\ "iter" \in RestoredFields THEN src.iter ELSE 0)
     ELSE Fresh(a)[f]]

\* what sample() does between the restore and the loop
DoReinit(t, a, one) ==
  LET lastBeta == IF Len(t.hist.beta) > 0 THEN LastOf(t.hist.beta) ELSE t.beta IN
  [t EXCEPT !.pc = IF lastBeta >= one \/ (CapAwareResume /\ a.maxn > 0 /\ t.iter >= a.maxn)
                     THEN "enlarge_test" ELSE "top",
            !.hist.pops = IF ReappendOnResume /\ t.store THEN Append(@, t.pop) ELSE @]

(* ---- the design-level behaviours ------------------------------------ *)
N == 2
KernelEvals == 3 * N

Init ==
  /\ args \in ArgSet
  /\ s = Fresh(args)
  /\ disk = [cfg |-> args.path, flow |-> args.path, blob |-> NoBlob]
  /\ lastPayload = NoBlob /\ lastWritten = NoBlob
  /\ full = <<>> /\ crashes = 0 /\ log = <<>> /\ firstResult = NoResult

Alive == s.pc # "dead"
Step(t) == /\ s' = t /\ UNCHANGED <<args, disk, lastPayload, lastWritten, full, crashes, firstResult>>

Start   == s.pc = "start" /\ Step(DoStart(s, <<"init">>, N)) /\ log' = Append(log, "Start")
Temper  == /\ s.pc = "top" /\ s.iter < MaxIter
           /\ \E b \in (s.beta + 1)..K :
              \E m \in (IF args.maxn > 0 THEN {s.minStep, s.minStep + 1} ELSE {s.minStep}) :
                 Step(DoTemper(s, IF s.iter + 1 = MaxIter THEN K ELSE b, m))
           /\ log' = Append(log, "Temper")
Resample == s.pc = "resample" /\ Step(DoResample(s, s.beta, s.size, ResTerm(s, s.beta))) /\ log' = Append(log, "Resample")
Kernel   == s.pc = "kernel" /\ Step(DoKernel(s, s.beta, KernelEvals, MutTerm(s, s.beta))) /\ log' = Append(log, "Kernel")
PostEval == s.pc = "eval" /\ Step(DoPostEval(s, s.pop)) /\ log' = Append(log, "PostEval")
AppendSampleHistory == s.pc = "append" /\ Step(DoAppend(s)) /\ log' = Append(log, "Append")

Checkpoint(force) ==
  /\ s.pc = (IF force THEN "fckpt" ELSE "ckpt")
  /\ LET due == Due(s, args, force) IN
     /\ lastPayload' = IF due THEN Payload(s) ELSE lastPayload
     /\ lastWritten' = IF due THEN Payload(s) ELSE lastWritten
     /\ disk' = IF due /\ args.path THEN [disk EXCEPT !.blob = Payload(s)] ELSE disk
     /\ full' = IF due THEN Append(full, s) ELSE full
  /\ s' = DoCkpt(s, args, force)
  /\ log' = Append(log, IF force THEN "ForcedCkpt" ELSE "Ckpt")
  /\ UNCHANGED <<args, crashes, firstResult>>

ExitTest    == s.pc = "exit" /\ Step(DoExit(s, args, K)) /\ log' = Append(log, "Exit")
EnlargeTest == s.pc = "enlarge_test" /\ Step(DoEnlargeTest(s, args)) /\ log' = Append(log, "EnlargeTest")
FinalResample == s.pc = "fres" /\ Step(DoFinalResample(s, args, ResTerm(s, K))) /\ log' = Append(log, "FinalResample")
FinalKernel == s.pc = "fkernel" /\ Step(DoFinalKernel(s, 3 * s.size, K, MutTerm(s, K))) /\ log' = Append(log, "FinalKernel")
FinalEval   == s.pc = "feval" /\ Step(DoFinalEval(s, s.pop)) /\ log' = Append(log, "FinalEval")
SetEvidence == s.pc = "evidence" /\ Step(DoEvidence(s)) /\ log' = Append(log, "SetEvidence")
Finish ==
  /\ s.pc = "finish"
  /\ s' = DoFinish(s)
  /\ firstResult' = IF firstResult = NoResult THEN s'.result ELSE firstResult
  /\ log' = Append(log, "Finish")
  /\ UNCHANGED <<args, disk, lastPayload, lastWritten, full, crashes>>

\* an exception leaves sample() at any call of the user's likelihood / prior
CrashPoints == {"start", "kernel", "eval", "fkernel", "feval"}
Crash ==
  /\ s.pc \in CrashPoints /\ crashes < MaxCrashes
  /\ s' = Dead(args) /\ crashes' = crashes + 1
  /\ log' = Append(log, "Crash")
  /\ UNCHANGED <<args, disk, lastPayload, lastWritten, full, firstResult>>

\* the run is over; later the user resumes the finished file again
Reopen ==
  /\ s.pc = "done" /\ crashes < MaxCrashes
  /\ s' = Dead(args) /\ crashes' = crashes + 1
  /\ log' = Append(log, "Reopen")
  /\ UNCHANGED <<args, disk, lastPayload, lastWritten, full, firstResult>>

Source(route) == IF route \in {"bytes", "dict"} THEN lastPayload ELSE disk.blob

Resume(route) ==
  /\ s.pc = "dead" /\ Source(route) # NoBlob
  /\ (route \in {"path", "file"}) => args.path
  /\ s' = DoRestore(args, Source(route))
  /\ lastPayload' = NoBlob            \* a new sampler object
  /\ log' = Append(log, "Resume")
  /\ UNCHANGED <<args, disk, lastWritten, full, crashes, firstResult>>

Reinit == s.pc = "reinit" /\ Step(DoReinit(s, args, K)) /\ log' = Append(log, "Reinit")

Next ==
  \/ Start \/ Temper \/ Resample \/ Kernel \/ PostEval \/ AppendSampleHistory
  \/ Checkpoint(FALSE) \/ ExitTest \/ EnlargeTest \/ FinalResample \/ FinalKernel
  \/ FinalEval \/ SetEvidence \/ Checkpoint(TRUE) \/ Finish
  \/ Crash \/ Reopen \/ (\E r \in Routes : Resume(r)) \/ Reinit

Spec == Init /\ [][Next]_vars

\* the operation log is an observation variable: keep it out of the fingerprint
View == <<args, s, disk, lastPayload, lastWritten, full, crashes, firstResult>>

(* ---- properties ------------------------------------------------------ *)
\* C18 (also after any number of interruptions and resumes)
HistoryFaithfulAt(t) ==
  /\ Len(t.hist.beta) = t.iter /\ Len(t.hist.ess) = t.iter
  /\ Len(t.hist.ratio) = t.iter /\ Len(t.hist.var) = t.iter
  /\ Len(t.hist.acc) \in {t.iter, t.iter + 1}
  /\ t.store => Len(t.hist.pops) = t.iter + 1
  /\ t.store => \A i \in 1..t.iter :
        /\ t.hist.ratio[i] = <<t.hist.pops[i], BetaAt(t.hist, i - 1), t.hist.beta[i]>>
        /\ t.hist.ess[i] = <<t.hist.pops[i], BetaAt(t.hist, i - 1), t.hist.beta[i]>>
        \* the stored population i+1 is what iteration i's resample+mutate produced from population i
        /\ t.hist.pops[i + 1][1] = "mut" /\ t.hist.pops[i + 1][2][1] = "res"
        /\ t.hist.pops[i + 1][2][2] = t.hist.pops[i]
        /\ t.hist.pops[i + 1][3] = t.hist.beta[i]
HistoryFaithful == s.pc = "done" => HistoryFaithfulAt(s)

\* C08
EvidenceTerms ==
  s.pc = "done" =>
     /\ Len(s.result.logz) = s.iter
     /\ \A i \in 1..s.iter : s.result.logz[i][2] = BetaAt(s.hist, i - 1) /\ s.result.logz[i][3] = s.hist.beta[i]
     /\ \A i \in 1..s.iter : s.result.logz[i][1] = IF i = 1 THEN <<"init">> ELSE s.hist.pops[i]
EvidenceSum == s.pc = "done" => s.result.logz = s.hist.ratio /\ s.result.err = s.hist.var
\* no term involves a resampled ("res") or enlarged population
EvidenceIndependent ==
  s.pc = "done" => \A i \in 1..Len(s.result.logz) : s.result.logz[i][1][1] \in {"init", "mut"}

\* C06 at this level
ScheduleOK ==
  /\ \A i \in 1..Len(s.hist.beta) : s.hist.beta[i] > BetaAt(s.hist, i - 1) /\ s.hist.beta[i] <= K
  /\ s.pc = "done" => (s.beta = K \/ (args.maxn > 0 /\ s.iter >= args.maxn))

\* C12
CadenceExact ==
  s.pc = "done" /\ args.every > 0 =>
     /\ \A i \in (s.startIter + 1)..s.iter :
           (i % args.every = 0) <=> (\E j \in 1..Len(s.ckpts) : s.ckpts[j] = <<i, FALSE>>)
     /\ \A j \in 1..Len(s.ckpts) :
           s.ckpts[j][2] \/ (s.ckpts[j][1] % args.every = 0 /\ s.ckpts[j][1] > s.startIter)
     /\ Len(s.ckpts) > 0 /\ LastOf(s.ckpts) = <<s.iter, TRUE>>
     /\ Cardinality({j \in 1..Len(s.ckpts) : s.ckpts[j][2]}) = 1
FileHoldsLatest == args.path => disk.blob = lastWritten
ConfigAndFlowPresent == (args.path /\ disk.blob # NoBlob) => (disk.cfg /\ disk.flow)
Loadable == (s.pc = "dead" /\ args.path /\ lastWritten # NoBlob) => ENABLED Resume("file")

\* C11: the inductive core.  When a resumed run re-enters sample()'s main
\* part, its live state is the live state the interrupted run had when the
\* checkpoint was taken.
SnapshotAt(it, pop) ==
  LET cands == {j \in 1..Len(full) : full[j].iter = it /\ full[j].pop = pop} IN
  IF cands = {} THEN NoBlob ELSE full[CHOOSE j \in cands : TRUE]
ResumeRestoresState ==
  (s.resumed /\ s.pc \in {"top", "enlarge_test"} /\ s.startIter = s.iter
      /\ \A j \in 1..Len(full) : TRUE) =>
     \E j \in 1..Len(full) : Core(s) = Core(full[j])
\* resuming a finished file reproduces the finished result
ResumeDeterministic ==
  (s.pc = "done" /\ firstResult # NoResult /\ s.resumed /\ s.startIter = s.iter) =>
     /\ s.result.logz = firstResult.logz /\ s.result.hist = firstResult.hist
     /\ s.result.pop = firstResult.pop /\ s.result.size = firstResult.size
=============================================================================
