------------------------------ MODULE Persist ------------------------------
(* What must survive a round trip through HDF5 (src/aspire/utils.py:
   recursively_save_to_h5_file / load_from_h5_file / encode_for_hdf5 /
   decode_from_hdf5, encode_samples / decode_samples; samples.py save / load;
   history.py save / load; transforms.py save / load; flows save / load;
   aspire.py save_config / resume_from_file).

   Values are tagged terms.  Norm(v) is the observational normalisation the
   loader is allowed to apply (a tuple of strings comes back as a list, a
   NumPy scalar as the Python scalar of the same value, bytes as str); the
   property is  load(save(v)) = Norm(v)  for every value of the grammar and,
   per artefact kind, equality on the listed observables.                 *)
EXTENDS Integers, Sequences, FiniteSets, SequencesExt, FiniteSetsExt, Json, IOUtils, TLC

VARIABLE cur      \* the case under examination (one TLC state per case)

CONSTANTS MaxDepth, Keys

(* ---- configuration value grammar --------------------------------------- *)
Leaf == { [t |-> "none"], [t |-> "emptydict"],
          [t |-> "bool", v |-> 1], [t |-> "bool", v |-> 0],
          [t |-> "int", v |-> 3], [t |-> "int", v |-> 0 - 7],
          [t |-> "float", v |-> 5],             \* eighths: 0.625
          [t |-> "str", v |-> "tpcn"], [t |-> "str", v |-> ""],
          [t |-> "strlist", v |-> <<"a", "bc">>], [t |-> "strtuple", v |-> <<"x_0", "x_1">>],
          [t |-> "intlist", v |-> <<8, 8>>],
          \* one-element containers keep their shape (they are not scalars)
          [t |-> "intlist", v |-> <<8>>], [t |-> "strlist", v |-> <<"a">>], [t |-> "nparray", v |-> <<5>>],
          [t |-> "npint", v |-> 4], [t |-> "npfloat", v |-> 12],
          [t |-> "nparray", v |-> <<1, 2, 3>>], [t |-> "nparray2d", v |-> <<1, 2, 3, 4>>] }

RECURSIVE Vals(_)
Vals(d) == IF d = 0 THEN Leaf
           ELSE Leaf \cup { [t |-> "dict", k |-> k, v |-> v] : k \in Keys, v \in Vals(d - 1) }
                     \cup { [t |-> "dict2", k |-> k, v |-> v, w |-> w] : k \in Keys, v \in Leaf, w \in {[t |-> "none"], [t |-> "emptydict"], [t |-> "int", v |-> 3]} }

Norm(v) ==
  IF v.t = "strtuple" THEN [t |-> "strlist", v |-> v.v]
  ELSE IF v.t = "npint" THEN [t |-> "int", v |-> v.v]
  ELSE IF v.t = "npfloat" THEN [t |-> "float", v |-> v.v]
  ELSE IF v.t = "intlist" THEN [t |-> "nparray", v |-> v.v]      \* a list of numbers is stored as an array
  ELSE v
RECURSIVE NormDeep(_)
NormDeep(v) == IF v.t = "dict" THEN [v EXCEPT !.v = NormDeep(v.v)]
               ELSE IF v.t = "dict2" THEN [v EXCEPT !.v = NormDeep(v.v), !.w = NormDeep(v.w)]
               ELSE Norm(v)

ConfigCases == { [kind |-> "config", where |-> w, value |-> v, expect |-> NormDeep(v)] :
                   w \in {"flow_kwargs", "top"}, v \in Vals(MaxDepth) }

(* ---- sample sets --------------------------------------------------------- *)
\* rows: number of samples in the set (a set of one sample is still a set: shape (1, d))
SampleCases == { [kind |-> "samples", cls |-> c, ns |-> n, dtype |-> d, fields |-> fs, layout |-> l, via |-> via, rows |-> r, saves |-> sv] :
                   c \in {"Base", "Samples", "SMC"}, n \in {"numpy", "torch", "jax"}, d \in {"default", "float32", "float64"},
                   fs \in SUBSET {"ll", "lp", "lq"}, l \in {"flat", "nested"}, via \in {"save"}, r \in {1, 5}, sv \in {1, 2} }
\* observables that must be equal after reload
SampleObservables == {"values", "parameters", "namespace", "dtype", "fields", "beta", "evidence", "class"}

(* ---- histories ----------------------------------------------------------- *)
\* number of stored populations: small counts, and counts whose decimal group names sort
\* differently as text than as numbers (10 and more, 100 and more)
HistPops == (0..3) \cup {10, 11, 23, 101}
HistoryCases == { [kind |-> "history", cls |-> c, npops |-> n, ns |-> ns, real |-> r, saves |-> sv] :
                    c \in {"FlowHistory", "SMCHistory"}, n \in HistPops, ns \in {"numpy", "torch", "jax"}, r \in BOOLEAN, sv \in {1, 2} }

(* ---- transforms and flows ------------------------------------------------ *)
\* eps: the clipping margin the object was constructed with ("default" or 1e-2) belongs to the map
TransformCases == { [kind |-> "transform", cls |-> c, fitted |-> f, ns |-> n, dtype |-> d, saves |-> sv, eps |-> e] :
                      c \in {"Composite", "CompositeFull", "FlowTransform", "Affine", "Logit", "Probit", "Periodic", "Identity"},
                      f \in BOOLEAN, n \in {"numpy", "torch", "jax"}, d \in {"float32", "float64"}, sv \in {1, 2},
                      e \in {"default", "large"} }
\* saves: an object may be written more than once (a checkpoint file, then a result file): saving is a
\* query, the second file must reload to the same object as the first (2 = the second file is read back).
\* transform: the flow was constructed with a fitted data transform (logit + affine)
\* dims: number of parameters (flowjax inserts random permutations between layers from 3 dimensions on)
FlowCases == { [kind |-> "flow", backend |-> b, trained |-> tr, dtype |-> d, kwargs |-> kw, transform |-> t, saves |-> ns, dims |-> dm] :
                 b \in {"zuko", "flowjax"}, tr \in BOOLEAN, d \in {"float32", "float64"}, kw \in BOOLEAN,
                 t \in BOOLEAN, ns \in {1, 2}, dm \in {2, 3, 5} } \ {c \in [kind : {"flow"}, backend : {"zuko", "flowjax"}, trained : BOOLEAN,
                 dtype : {"float32", "float64"}, kwargs : BOOLEAN, transform : {TRUE}, saves : {1, 2}, dims : {3, 5}] : TRUE}
ResumeCases == { [kind |-> "resume", backend |-> b, dtype |-> d, kwargs |-> kw, periodic |-> p, xp |-> n] :
                   b \in {"verifflow", "zuko", "flowjax"}, d \in {"default", "float32", "float64"}, kw \in BOOLEAN,
                   p \in BOOLEAN, n \in {"numpy", "torch", "jax"} }
\* settings that must be equal between the instance that wrote a configuration and the rebuilt one
ResumeKeys == {"dims", "parameters", "periodic_parameters", "prior_bounds", "bounded_to_unbounded",
               "bounded_transform", "flow_matching", "flow_backend", "flow_kwargs", "eps", "xp", "dtype"}

Cases == ConfigCases \cup SampleCases \cup HistoryCases \cup TransformCases \cup FlowCases \cup ResumeCases

\* laws of the normalisation itself
NormIdempotent == \A v \in {cur} : NormDeep(NormDeep(v)) = NormDeep(v)
NormKeepsSentinels == \A v \in {cur} : (v.t \in {"none", "emptydict"}) => NormDeep(v) = v
ASSUME PrintT(<<"NCASES", Cardinality(Cases)>>)
ASSUME JsonSerialize(IOEnv.OUT_FILE, [cases |-> SetToSeq(Cases), resume_keys |-> SetToSeq(ResumeKeys),
                                       sample_observables |-> SetToSeq(SampleObservables)])

\* one TLC state per case: the laws are state invariants evaluated on every case
Init == cur \in Vals(MaxDepth)
Next == UNCHANGED cur
Spec == Init /\ [][Next]_cur
=============================================================================
