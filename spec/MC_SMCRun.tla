---- MODULE MC_SMCRun ----
EXTENDS SMCRun
MCArgs == { [every |-> e, nfinal |-> f, maxn |-> m, path |-> p] :
              e \in 0..3, f \in {0, 4}, m \in {0, 2}, p \in BOOLEAN }
MCRoutes == {"bytes", "dict", "path", "file"}
MCPayload == {"pop", "size", "iter", "beta", "hist", "rng", "minStep"}
MCRestored == {"pop", "size", "iter", "beta", "hist", "rng", "minStep"}
====
