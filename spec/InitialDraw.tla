---------------------------- MODULE InitialDraw ----------------------------
(* The rejection loop that builds the initial SMC / MCMC population
   (src/aspire/samplers/mcmc.py: MCMCSampler.draw_initial_samples):

       while fewer than n valid particles:
           draw a batch of n from the proposal (with its log-density)
           evaluate the prior on the batch; keep the finite-prior rows
           append them to the population
       trim to the first n; evaluate the likelihood once on exactly those n

   A behaviour is the sequence of validity masks of the batches.  The
   specification gives, for every such sequence that reaches n valid rows
   within MaxBatches, the rows kept (batch, position) in order, the number of
   proposal / prior / likelihood calls and the batch the likelihood sees.
   Properties (C10, C17): exactly n particles, all valid, in draw order, each
   paired with its *own* proposal log-density and prior; the likelihood is
   called once, after the prior, on exactly the kept rows.
   Liveness: the loop terminates iff some batch sequence reaches n valid rows;
   with a proposal that never lands in the prior support it does not (noted). *)
EXTENDS Integers, Sequences, FiniteSets, SequencesExt, FiniteSetsExt, Json, IOUtils, TLC

VARIABLE cur      \* the case under examination (one TLC state per case)

CONSTANTS N, MaxBatches

Masks == [1..N -> BOOLEAN]
ValidRows(b, m) == SelectSeq([i \in 1..N |-> <<b, i>>], LAMBDA r : m[r[2]])
RECURSIVE Collect(_, _)
Collect(ms, k) == IF k > Len(ms) THEN <<>> ELSE ValidRows(k, ms[k]) \o Collect(ms, k + 1)
Count(ms) == Len(Collect(ms, 1))

\* mask sequences as the loop sees them: it stops as soon as n valid rows have been collected
Runs == { ms \in UNION {[1..k -> Masks] : k \in 1..MaxBatches} :
            /\ Count(ms) >= N
            /\ Count(SubSeq(ms, 1, Len(ms) - 1)) < N }

\* how an invalid draw shows: the prior is "finite" or it is not - zero prior (-inf), an undefined
\* prior (NaN, e.g. -log(sigma) at sigma < 0) and +inf are all rejected
InvalidKind(b, i) == <<"minf", "nan", "pinf", "nan">>[((b + i) % 4) + 1]
Case(ms) == [invalid_kind |-> [b \in 1..Len(ms) |-> [i \in 1..N |-> InvalidKind(b, i)]],
             masks |-> ms, batches |-> Len(ms), kept |-> SubSeq(Collect(ms, 1), 1, N),
             prior_calls |-> Len(ms), proposal_calls |-> Len(ms), likelihood_calls |-> 1, likelihood_points |-> N]
Cases == {Case(ms) : ms \in Runs}

ExactlyN == \A c \in {cur} : Len(c.kept) = N
OnlyValid == \A c \in {cur} : \A r \in 1..N : c.masks[c.kept[r][1]][c.kept[r][2]]
DrawOrder == \A c \in {cur} : \A r \in 1..(N - 1) :
               c.kept[r][1] < c.kept[r + 1][1] \/ (c.kept[r][1] = c.kept[r + 1][1] /\ c.kept[r][2] < c.kept[r + 1][2])
NoRowTwice == \A c \in {cur} : Cardinality({c.kept[r] : r \in 1..N}) = N
ASSUME PrintT(<<"NCASES", Cardinality(Cases)>>)
ASSUME JsonSerialize(IOEnv.OUT_FILE, SetToSeq(Cases))

\* one TLC state per case: the laws are state invariants evaluated on every case
Init == cur \in Cases
Next == UNCHANGED cur
Spec == Init /\ [][Next]_cur
=============================================================================
