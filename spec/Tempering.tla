--------------------------- MODULE Tempering ---------------------------
(* The temperature controller of aspire's SMC sampler
   (src/aspire/samplers/smc/base.py: SMCSampler.determine_beta and the
   schedule part of SMCSampler.sample), shaped like the code.

   Temperatures live on the integer grid 0..K (K stands for beta = 1).
   The only fact assumed about a population is that ESS(beta') of its
   incremental weights is non-increasing in beta', i.e. the set of
   admissible next temperatures is downward closed: it is described by a
   threshold  theta \in beta..K  ("every b <= theta meets the target");
   theta = beta means that no step at all is admissible (extremely peaked
   likelihood).  A fresh threshold is drawn for every new population.

   Named deviations of the implementation are constants so that the model
   describes the tree as it is:
     GuardRescale   FALSE: the floor is rescaled even when the search
                    returned beta* = 1  (division by zero -> "raised")
     ProgressRule   FALSE: when the search cannot move (beta* = beta_prev)
                    and there is no floor, beta does not change
   The fixed schedule is the mathematical one (beta_t = min(1, t/n)); the
   floating-point accumulation of 1/n in the code is a conformance matter
   decided on real runs (check C06, monitor FixedExactlyN).               *)
EXTENDS Naturals, Sequences, FiniteSets, TLC

CONSTANTS K,            \* grid resolution, K == beta 1.0
          Options,      \* set of option records [adaptive, nsteps, minstep, maxn, tol]
                        \*   adaptive: BOOLEAN; nsteps: fixed schedule length (0 = not given)
                        \*   minstep: explicit floor in grid units (0 = none)
                        \*   maxn: cap on iterations (0 = none); tol: search tolerance (>= 1)
          GuardRescale, ProgressRule

ASSUME /\ K \in Nat \ {0}
       /\ \A o \in Options : /\ o.adaptive \in BOOLEAN /\ o.tol \in Nat \ {0}
                              /\ (~o.adaptive) => (o.nsteps > 0 /\ K % o.nsteps = 0)

VARIABLES opt,       \* the schedule options of this run (constant along a behaviour)
          beta,      \* current temperature
          iter,      \* completed + current iteration counter
          minStep,   \* floor in force (grid units, 0 = none)
          adaptiveMinStep,
          theta,     \* ESS oracle of the current population
          lo, hi,    \* bracket of the search
          star,      \* result of the search
          pc,
          betas,     \* the schedule so far (history.beta)
          forcedAt   \* ghost: iterations whose step was decided by the floor

vars == <<opt, beta, iter, minStep, adaptiveMinStep, theta, lo, hi, star, pc, betas, forcedAt>>

Adaptive  == opt.adaptive
NSteps    == opt.nsteps
MinStep   == opt.minstep
MaxNSteps == opt.maxn
Tol       == opt.tol

Min(a, b) == IF a < b THEN a ELSE b
Max(a, b) == IF a > b THEN a ELSE b
Meets(b) == b <= theta               \* ESS(b) >= target for the current population

Init ==
  /\ opt \in Options
  /\ beta = 0 /\ iter = 0 /\ betas = <<>> /\ forcedAt = {}
  /\ lo = 0 /\ hi = 0 /\ star = 0
  /\ theta \in 0..K
  /\ pc = "top"
  \* InitSchedule: min_step / max_n_steps handling of sample()
  /\ IF MinStep > 0
       THEN minStep = MinStep /\ adaptiveMinStep = FALSE
       ELSE IF MaxNSteps > 0 /\ Adaptive
              THEN minStep = (K + MaxNSteps - 1) \div MaxNSteps /\ adaptiveMinStep = TRUE
              ELSE minStep = 0 /\ adaptiveMinStep = FALSE

(* ---- one loop iteration --------------------------------------------- *)
Top ==
  /\ pc = "top"
  /\ iter' = iter + 1
  /\ pc' = IF Adaptive THEN "bisect_start" ELSE "fixed"
  /\ UNCHANGED <<opt, beta, minStep, adaptiveMinStep, theta, lo, hi, star, betas, forcedAt>>

\* not adaptive:  beta += 1/n ; clamp at 1
FixedStep ==
  /\ pc = "fixed"
  /\ beta' = Min(K, beta + (K \div NSteps))
  /\ pc' = "record"
  /\ UNCHANGED <<opt, iter, minStep, adaptiveMinStep, theta, lo, hi, star, betas, forcedAt>>

BisectStart ==
  /\ pc = "bisect_start"
  /\ hi' = K
  /\ lo' = IF Meets(K) THEN K ELSE beta      \* "even the full step meets it"
  /\ pc' = "bisect"
  /\ UNCHANGED <<opt, beta, iter, minStep, adaptiveMinStep, theta, star, betas, forcedAt>>

\* any interior probe (the code takes the midpoint; every correct bracketing
\* search is a refinement of this)
BisectProbe(p) ==
  /\ pc = "bisect" /\ hi - lo > Tol
  /\ lo < p /\ p < hi
  /\ IF Meets(p) THEN lo' = p /\ hi' = hi ELSE hi' = p /\ lo' = lo
  /\ UNCHANGED <<opt, beta, iter, minStep, adaptiveMinStep, theta, star, pc, betas, forcedAt>>

BisectDone ==
  /\ pc = "bisect" /\ hi - lo <= Tol
  /\ star' = lo
  /\ pc' = "rescale"
  /\ UNCHANGED <<opt, beta, iter, minStep, adaptiveMinStep, theta, lo, hi, betas, forcedAt>>

\* min_step * (1 - beta_prev) / (1 - beta_star): any value >= the old floor
\* (the ratio is >= 1); division by zero when beta* = 1.
RescaleMinStep ==
  /\ pc = "rescale"
  /\ IF adaptiveMinStep /\ ~(GuardRescale /\ star = K)
       THEN IF star = K
              THEN pc' = "raised" /\ minStep' = minStep
              ELSE pc' = "floor" /\ minStep' \in minStep..K
       ELSE pc' = "floor" /\ minStep' = minStep
  /\ UNCHANGED <<opt, beta, iter, adaptiveMinStep, theta, lo, hi, star, betas, forcedAt>>

ApplyFloor ==
  /\ pc = "floor"
  /\ LET cand == Max(star, beta + minStep)
         prog == IF ProgressRule /\ cand = beta THEN Min(K, beta + Tol) ELSE cand   \* smallest rejected probe
     IN /\ beta' = Min(K, prog)
        /\ forcedAt' = IF prog > star THEN forcedAt \cup {iter} ELSE forcedAt
  /\ pc' = "record"
  /\ UNCHANGED <<opt, iter, minStep, adaptiveMinStep, theta, lo, hi, star, betas>>

Record ==
  /\ pc = "record"
  /\ betas' = Append(betas, beta)
  /\ pc' = "mutate"
  /\ UNCHANGED <<opt, beta, iter, minStep, adaptiveMinStep, theta, lo, hi, star, forcedAt>>

\* resample + mutate: a new population, hence a new ESS oracle
NewPopulation ==
  /\ pc = "mutate"
  /\ theta' \in beta..K
  /\ pc' = "exit_test"
  /\ UNCHANGED <<opt, beta, iter, minStep, adaptiveMinStep, lo, hi, star, betas, forcedAt>>

ExitTest ==
  /\ pc = "exit_test"
  /\ pc' = IF beta = K \/ (MaxNSteps > 0 /\ iter >= MaxNSteps) THEN "done" ELSE "top"
  /\ UNCHANGED <<opt, beta, iter, minStep, adaptiveMinStep, theta, lo, hi, star, betas, forcedAt>>

Next ==
  \/ Top \/ FixedStep \/ BisectStart
  \/ (\E p \in 0..K : BisectProbe(p)) \/ BisectDone
  \/ RescaleMinStep \/ ApplyFloor \/ Record \/ NewPopulation \/ ExitTest

Fairness == WF_vars(Next)
Spec == Init /\ [][Next]_vars /\ Fairness

(* ---- properties (C06) ------------------------------------------------ *)
TypeOK == /\ beta \in 0..K /\ iter \in Nat /\ minStep \in 0..K /\ theta \in 0..K
          /\ lo \in 0..K /\ hi \in 0..K

StrictlyIncreasing ==
  \A i \in 1..Len(betas) : betas[i] > (IF i = 1 THEN 0 ELSE betas[i-1])
InUnit == \A i \in 1..Len(betas) : betas[i] > 0 /\ betas[i] <= K
EndsAtOneOrCap ==
  pc = "done" => (beta = K \/ (MaxNSteps > 0 /\ iter = MaxNSteps))
FixedExactlyN ==
  (~Adaptive /\ pc = "done" /\ MaxNSteps = 0) => iter = NSteps
CapHonoured == MaxNSteps > 0 => iter <= MaxNSteps
FloorHonoured ==
  MinStep > 0 => \A i \in 1..Len(betas) :
      LET prev == IF i = 1 THEN 0 ELSE betas[i-1] IN
      betas[i] - prev >= MinStep \/ betas[i] = K
NeverRaises == pc # "raised"
Terminates == <>(pc = "done")

(* ---- properties (C07) ------------------------------------------------ *)
BisectPost ==
  pc = "bisect" => /\ (lo = beta \/ Meets(lo)) /\ (hi = K \/ ~Meets(hi)) /\ lo <= hi
                   /\ (lo = K => Meets(K))
\* checked where the step is visible: pc = "record" right after ApplyFloor
AdaptiveMaximal ==
  (Adaptive /\ pc = "record" /\ iter \notin forcedAt) =>
     \/ (beta = K /\ Meets(K))
     \/ (Meets(beta) /\ beta > (IF Len(betas) = 0 THEN 0 ELSE betas[Len(betas)]) /\ ~Meets(beta + Tol))
     \/ (~ProgressRule /\ beta = star /\ star = (IF Len(betas) = 0 THEN 0 ELSE betas[Len(betas)]))  \* NoProgress deviation
\* a forced step is never smaller than the admissible one
ForcedNotBelowStar ==
  (Adaptive /\ pc = "record" /\ iter \in forcedAt) => beta >= star
=============================================================================
