SPECIFICATION Spec
CONSTANTS
  Narrow = FALSE
  MaxOps = 5
  RewriteFlow = TRUE
  DropStaleCkpt = TRUE
  MapClassName = FALSE
  ResumeSavesConfig = TRUE
INVARIANT ProposalMatchesCheckpoint
INVARIANT ConfigNamesWriter
INVARIANT ConfigAndFlowFirst
