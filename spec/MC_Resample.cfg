SPECIFICATION Spec
CONSTANTS
  Den = 4
  MaxMove = 4
  Ks <- QuickKs
  NMin = 2
  NMax = 3
  Betas = {0, 1, 2, 4}
  MaxIdx = 12
