----------------------------- MODULE Contexts -----------------------------
(* The two context managers of an Aspire instance
     PoolHandler        (src/aspire/utils.py, via Aspire.enable_pool)
     auto_checkpoint    (src/aspire/aspire.py)
   under every nesting up to a bound, with exceptions raised at every
   position of the body and caught at every enclosing level.

   Instance state: the likelihood and prior callables, as records [f, pool]:
   the original function with pool "none", or functools.partial(f, map_fn=pool.map)
   (Python flattens a partial of a partial: the function stays, the keyword is replaced)
   and the checkpoint defaults (a record, or NoDefaults when the attribute is
   absent).  Each open context remembers a ghost snapshot of the instance
   state at entry; the managers' own saved values are modelled as the code
   keeps them (PoolHandler.original_*, auto_checkpoint's local `prev`).     *)
EXTENDS Naturals, Sequences, FiniteSets, TLC

CONSTANTS Pools, MaxDepth, MaxOps

NoDefaults == [on |-> FALSE, path |-> "none", every |-> 0, save_config |-> FALSE]
Paths == {"f1", "f2"}

VARIABLES L, P, defaults, stack, closed, joined, nops, op, lastPop
vars == <<L, P, defaults, stack, closed, joined, nops, op, lastPop>>

Init ==
  /\ L = [f |-> "L0", pool |-> "none"] /\ P = [f |-> "P0", pool |-> "none"] /\ defaults = NoDefaults /\ stack = <<>>
  /\ closed = [p \in Pools |-> 0] /\ joined = [p \in Pools |-> 0]
  /\ nops = 0 /\ op = <<"init">> /\ lastPop = [valid |-> FALSE, ok |-> TRUE, closeOk |-> TRUE]

Snap == [L |-> L, P |-> P, defaults |-> defaults]

\* with aspire.enable_pool(pool, close_pool=c, parallelize_prior=pp):
EnterPool(p, c, pp, usePool) ==
  /\ nops < MaxOps /\ Len(stack) < MaxDepth
  /\ nops' = nops + 1 /\ op' = <<"EnterPool", p, c, pp, usePool>>
  /\ stack' = Append(stack, [kind |-> "pool", snap |-> Snap, origL |-> L, origP |-> P,
                             pool |-> p, close |-> c, usePool |-> usePool])
  /\ L' = IF usePool THEN [L EXCEPT !.pool = p] ELSE L
  /\ P' = IF usePool /\ pp THEN [P EXCEPT !.pool = p] ELSE P
  /\ UNCHANGED <<defaults, closed, joined, lastPop>>

\* with aspire.auto_checkpoint(path, every, save_config):
EnterAuto(path, ev, sc) ==
  /\ nops < MaxOps /\ Len(stack) < MaxDepth
  /\ nops' = nops + 1 /\ op' = <<"EnterAuto", path, ev, sc>>
  /\ stack' = Append(stack, [kind |-> "auto", snap |-> Snap, prev |-> defaults])
  /\ defaults' = [on |-> TRUE, path |-> path, every |-> ev, save_config |-> sc]
  /\ UNCHANGED <<L, P, closed, joined, lastPop>>

\* the exit code of the innermost context (normal exit and exception take the same path)
PopTop(st, l, p, d, cl, jn) ==
  LET top == st[Len(st)] IN
  IF top.kind = "pool"
    THEN [L |-> top.origL, P |-> top.origP, d |-> d,
          cl |-> IF top.close THEN [cl EXCEPT ![top.pool] = @ + 1] ELSE cl,
          jn |-> IF top.close THEN [jn EXCEPT ![top.pool] = @ + 1] ELSE jn]
    ELSE [L |-> l, P |-> p, d |-> top.prev, cl |-> cl, jn |-> jn]

RECURSIVE Unwind(_, _, _, _, _, _, _)
Unwind(k, st, l, p, d, cl, jn) ==
  IF k = 0 THEN [st |-> st, L |-> l, P |-> p, d |-> d, cl |-> cl, jn |-> jn, ok |-> TRUE, closeOk |-> TRUE]
  ELSE LET top == st[Len(st)]
           r == PopTop(st, l, p, d, cl, jn)
           okHere == /\ r.L = top.snap.L /\ r.P = top.snap.P /\ r.d = top.snap.defaults
           closeHere == IF top.kind = "pool"
                          THEN (r.cl[top.pool] - cl[top.pool]) = (IF top.close THEN 1 ELSE 0)
                          ELSE r.cl = cl
           rest == Unwind(k - 1, SubSeq(st, 1, Len(st) - 1), r.L, r.P, r.d, r.cl, r.jn)
       IN [rest EXCEPT !.ok = (@ /\ okHere), !.closeOk = (@ /\ closeHere)]

\* leave the innermost block normally
Exit ==
  /\ nops < MaxOps /\ Len(stack) > 0
  /\ nops' = nops + 1 /\ op' = <<"Exit">>
  /\ LET r == Unwind(1, stack, L, P, defaults, closed, joined) IN
     /\ stack' = r.st /\ L' = r.L /\ P' = r.P /\ defaults' = r.d /\ closed' = r.cl /\ joined' = r.jn
     /\ lastPop' = [valid |-> TRUE, ok |-> r.ok, closeOk |-> r.closeOk]

\* an exception raised in the innermost body and caught k levels up
Raise(k) ==
  /\ nops < MaxOps /\ k \in 1..Len(stack)
  /\ nops' = nops + 1 /\ op' = <<"Raise", k>>
  /\ LET r == Unwind(k, stack, L, P, defaults, closed, joined) IN
     /\ stack' = r.st /\ L' = r.L /\ P' = r.P /\ defaults' = r.d /\ closed' = r.cl /\ joined' = r.jn
     /\ lastPop' = [valid |-> TRUE, ok |-> r.ok, closeOk |-> r.closeOk]

Next ==
  \/ \E p \in Pools, c \in BOOLEAN, pp \in BOOLEAN, u \in BOOLEAN : EnterPool(p, c, pp, u)
  \/ \E path \in Paths, ev \in {1, 3}, sc \in BOOLEAN : EnterAuto(path, ev, sc)
  \/ Exit
  \/ \E k \in 1..MaxDepth : Raise(k)

Spec == Init /\ [][Next]_vars

(* C19 *)
ContextsRestored == lastPop.valid => lastPop.ok
PoolClosedIffAsked == lastPop.valid => lastPop.closeOk
\* once every context is closed the instance is as it was created
AllClosedMeansPristine ==
  (Len(stack) = 0) => (L = [f |-> "L0", pool |-> "none"] /\ P = [f |-> "P0", pool |-> "none"] /\ defaults = NoDefaults)
=============================================================================
