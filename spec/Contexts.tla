----------------------------- MODULE Contexts -----------------------------
(* The two context managers of an Aspire instance
     PoolHandler        (src/aspire/utils.py, via Aspire.enable_pool)
     auto_checkpoint    (src/aspire/aspire.py)
   under every nesting up to a bound, with exceptions raised at every
   position of the body and caught at every enclosing level.

   Instance state: the likelihood and prior callables, as records [f, pool]:
   the original function with pool "none", or functools.partial(f, map_fn=pool.map)
   (Python flattens a partial of a partial: the function stays, the keyword is replaced)
   and the checkpoint defaults (a record, or NoDefaults when the attribute is
   absent).  Each open context remembers a ghost snapshot of the instance
   state at entry; the managers' own saved values are modelled as the code
   keeps them (PoolHandler.original_*, auto_checkpoint's local `prev`).     *)
EXTENDS Naturals, Sequences, FiniteSets, TLC

CONSTANTS Pools, MaxDepth, MaxOps, MaxHandlers,
          BadPools,   \* subset of Pools whose join() raises when the handler closes them (a lost worker,
                      \* a pool-like object without join): leaving the block then raises *that* error,
                      \* and the instance must be restored all the same
          PoolOpts,   \* subset of BOOLEAN \X BOOLEAN \X BOOLEAN: <<close_pool, parallelize_prior, pool given>>
          AutoOpts    \* subset of Paths \X {1, 3} \X BOOLEAN:     <<path, every, save_config>>

NoDefaults == [on |-> FALSE, path |-> "none", every |-> 0, save_config |-> FALSE]
Paths == {"f1", "f2"}

VARIABLES L, P, defaults, stack, closed, joined, nops, op, lastPop,
          handlers,     \* PoolHandler objects constructed so far (enable_pool(...) returns one; `with` enters it)
          userL, userP  \* what the user last assigned outside every context
vars == <<L, P, defaults, stack, closed, joined, nops, op, lastPop, handlers, userL, userP>>

Init ==
  /\ L = [f |-> "L0", pool |-> "none"] /\ P = [f |-> "P0", pool |-> "none"] /\ defaults = NoDefaults /\ stack = <<>>
  /\ closed = [p \in Pools |-> 0] /\ joined = [p \in Pools |-> 0]
  /\ nops = 0 /\ op = <<"init">> /\ lastPop = [valid |-> FALSE, ok |-> TRUE, closeOk |-> TRUE]
  /\ handlers = <<>> /\ userL = L /\ userP = P

Snap == [L |-> L, P |-> P, defaults |-> defaults]

\* h = aspire.enable_pool(pool, close_pool=c, parallelize_prior=pp): constructs the handler, changes nothing.
\* The usual inline form `with aspire.enable_pool(...)` is MakePool immediately followed by EnterPool;
\* handlers prepared up front and entered later (or entered again after use) are the other behaviours.
MakePool(p, c, pp, usePool) ==
  /\ nops < MaxOps /\ Len(handlers) < MaxHandlers
  /\ nops' = nops + 1 /\ op' = <<"MakePool", p, c, pp, usePool>>
  /\ handlers' = Append(handlers, [pool |-> p, close |-> c, pp |-> pp, usePool |-> usePool])
  /\ UNCHANGED <<L, P, defaults, stack, closed, joined, lastPop, userL, userP>>

Active(i) == \E k \in 1..Len(stack) : stack[k].kind = "pool" /\ stack[k].h = i

\* h.__enter__(): the values to restore are the ones the instance has *now*
EnterPool(i) ==
  /\ nops < MaxOps /\ Len(stack) < MaxDepth /\ i \in 1..Len(handlers) /\ ~Active(i)
  /\ nops' = nops + 1 /\ op' = <<"EnterPool", i>>
  /\ LET h == handlers[i] IN
     /\ stack' = Append(stack, [kind |-> "pool", snap |-> Snap, origL |-> L, origP |-> P, h |-> i,
                                pool |-> h.pool, close |-> h.close, usePool |-> h.usePool])
     /\ L' = IF h.usePool THEN [L EXCEPT !.pool = h.pool] ELSE L
     /\ P' = IF h.usePool /\ h.pp THEN [P EXCEPT !.pool = h.pool] ELSE P
  /\ UNCHANGED <<defaults, closed, joined, lastPop, handlers, userL, userP>>

\* the user assigns another likelihood / prior to the instance between two uses
SetL ==
  /\ nops < MaxOps /\ stack = <<>> /\ L.f = "L0"
  /\ nops' = nops + 1 /\ op' = <<"SetL">>
  /\ L' = [f |-> "L1", pool |-> "none"] /\ userL' = L'
  /\ UNCHANGED <<P, defaults, stack, closed, joined, lastPop, handlers, userP>>
SetP ==
  /\ nops < MaxOps /\ stack = <<>> /\ P.f = "P0"
  /\ nops' = nops + 1 /\ op' = <<"SetP">>
  /\ P' = [f |-> "P1", pool |-> "none"] /\ userP' = P'
  /\ UNCHANGED <<L, defaults, stack, closed, joined, lastPop, handlers, userL>>

\* with aspire.auto_checkpoint(path, every, save_config):
EnterAuto(path, ev, sc) ==
  /\ nops < MaxOps /\ Len(stack) < MaxDepth
  /\ nops' = nops + 1 /\ op' = <<"EnterAuto", path, ev, sc>>
  /\ stack' = Append(stack, [kind |-> "auto", snap |-> Snap, prev |-> defaults])
  /\ defaults' = [on |-> TRUE, path |-> path, every |-> ev, save_config |-> sc]
  /\ UNCHANGED <<L, P, closed, joined, lastPop, handlers, userL, userP>>

\* the exit code of the innermost context (normal exit and exception take the same path)
PopTop(st, l, p, d, cl, jn) ==
  LET top == st[Len(st)] IN
  IF top.kind = "pool"
    THEN [L |-> top.origL, P |-> top.origP, d |-> d,
          cl |-> IF top.close THEN [cl EXCEPT ![top.pool] = @ + 1] ELSE cl,
          jn |-> IF top.close /\ top.pool \notin BadPools THEN [jn EXCEPT ![top.pool] = @ + 1] ELSE jn]
    ELSE [L |-> l, P |-> p, d |-> top.prev, cl |-> cl, jn |-> jn]

RECURSIVE Unwind(_, _, _, _, _, _, _)
Unwind(k, st, l, p, d, cl, jn) ==
  IF k = 0 THEN [st |-> st, L |-> l, P |-> p, d |-> d, cl |-> cl, jn |-> jn, ok |-> TRUE, closeOk |-> TRUE]
  ELSE LET top == st[Len(st)]
           r == PopTop(st, l, p, d, cl, jn)
           okHere == /\ r.L = top.snap.L /\ r.P = top.snap.P /\ r.d = top.snap.defaults
           closeHere == IF top.kind = "pool"
                          THEN (r.cl[top.pool] - cl[top.pool]) = (IF top.close THEN 1 ELSE 0)
                          ELSE r.cl = cl
           rest == Unwind(k - 1, SubSeq(st, 1, Len(st) - 1), r.L, r.P, r.d, r.cl, r.jn)
       IN [rest EXCEPT !.ok = (@ /\ okHere), !.closeOk = (@ /\ closeHere)]

\* leave the innermost block normally
Exit ==
  /\ nops < MaxOps /\ Len(stack) > 0
  /\ nops' = nops + 1 /\ op' = <<"Exit">>
  /\ LET r == Unwind(1, stack, L, P, defaults, closed, joined) IN
     /\ stack' = r.st /\ L' = r.L /\ P' = r.P /\ defaults' = r.d /\ closed' = r.cl /\ joined' = r.jn
     /\ lastPop' = [valid |-> TRUE, ok |-> r.ok, closeOk |-> r.closeOk]
  /\ UNCHANGED <<handlers, userL, userP>>

\* an exception raised in the innermost body and caught k levels up
\* kind: what is raised.  "Exception" subclasses (an error in the user's likelihood) and the
\* BaseException-only kinds (KeyboardInterrupt when the user presses ctrl-C, SystemExit, and
\* GeneratorExit when a generator-based manager is closed) all unwind a with-block the same way.
ExcKinds == {"RuntimeError", "KeyboardInterrupt", "SystemExit"}
Raise(k, kind) ==
  /\ nops < MaxOps /\ k \in 1..Len(stack)
  /\ nops' = nops + 1 /\ op' = <<"Raise", k, kind>>
  /\ LET r == Unwind(k, stack, L, P, defaults, closed, joined) IN
     /\ stack' = r.st /\ L' = r.L /\ P' = r.P /\ defaults' = r.d /\ closed' = r.cl /\ joined' = r.jn
     /\ lastPop' = [valid |-> TRUE, ok |-> r.ok, closeOk |-> r.closeOk]
  /\ UNCHANGED <<handlers, userL, userP>>

Next ==
  \/ \E p \in Pools, o \in PoolOpts : MakePool(p, o[1], o[2], o[3])
  \/ \E i \in 1..MaxHandlers : EnterPool(i)
  \/ SetL \/ SetP
  \/ \E o \in AutoOpts : EnterAuto(o[1], o[2], o[3])
  \/ Exit
  \/ \E k \in 1..MaxDepth, kind \in ExcKinds : Raise(k, kind)

Spec == Init /\ [][Next]_vars

(* C19 *)
ContextsRestored == lastPop.valid => lastPop.ok
PoolClosedIffAsked == lastPop.valid => lastPop.closeOk
\* once every context is closed the instance is as it was created
AllPoolOpts == BOOLEAN \X BOOLEAN \X BOOLEAN
AllAutoOpts == Paths \X {1, 3} \X BOOLEAN
\* reduced option sets for the deep replay graph
FewPoolOpts == {<<FALSE, TRUE, TRUE>>, <<TRUE, FALSE, TRUE>>, <<FALSE, TRUE, FALSE>>}
FewAutoOpts == {<<"f1", 1, TRUE>>, <<"f2", 3, FALSE>>, <<"f1", 3, FALSE>>}   \* the same file with other settings, too
AllClosedMeansPristine ==
  (Len(stack) = 0) => (L = userL /\ P = userP /\ defaults = NoDefaults)
=============================================================================
