SPECIFICATION Spec
CONSTANTS
  K = 8
  Options <- MCOptions
  GuardRescale = TRUE
  ProgressRule = TRUE
INVARIANT TypeOK
INVARIANT StrictlyIncreasing
INVARIANT InUnit
INVARIANT EndsAtOneOrCap
INVARIANT FixedExactlyN
INVARIANT CapHonoured
INVARIANT FloorHonoured
INVARIANT NeverRaises
INVARIANT BisectPost
INVARIANT AdaptiveMaximal
INVARIANT ForcedNotBelowStar
PROPERTY Terminates
