---- MODULE MC_Weights ----
EXTENDS Weights
MCSplits == {<<0, 0>>, <<2, -1>>, <<-3, 1>>}
====
