----------------------------- MODULE Pipeline -----------------------------
(* Parameter transforms of aspire (src/aspire/transforms.py, src/aspire/utils.py:
   logit / sigmoid): the composition structure of CompositeTransform /
   FlowTransform and the elementary maps with their log-Jacobians.

   Part 1 (structure, decided by TLC on symbolic terms).  A configuration
   gives each of d <= 3 parameters a kind (periodic / bounded / free) and the
   options bounded_to_unbounded, bounded_transform, affine_transform.  The
   specification derives the stage list of forward (periodic -> bounded ->
   affine, each on its column set), of inverse (the reverse), of fit, and the
   log-Jacobian as the sum of the stage terms, and checks on symbolic terms:
     RoundTrip      inverse(forward(x)) = x           (x inside the bounds)
     InvJacNeg      J_inverse(forward(x)) = - J_forward(x)
     FitIsForward   fit(x) = forward(x)
     CompositeOrder the stage order and column sets
     JacAccumulates every applied stage contributes exactly once
   Part 2 (elementary maps).  Closed forms as expression trees over
   {x, lower, upper, mean, std, eps}: value, forward log-Jacobian, inverse
   value, inverse log-Jacobian.  The harness evaluates the trees in 50-digit
   arithmetic on the exported lattice of bounds and points and compares with
   the real classes; TLC checks the rational parts exactly (Wrap, Unit).   *)
EXTENDS Integers, Sequences, FiniteSets, SequencesExt, FiniteSetsExt, Json, IOUtils, TLC

VARIABLE cur      \* the case under examination (one TLC state per case)

CONSTANTS MaxDims, BoundsSet, Fracs, WrapPoints

Kinds == {"periodic", "bounded", "free"}
Configs ==
  UNION {{[d |-> d, kinds |-> ks, b2u |-> b, btrans |-> t, affine |-> a, flowt |-> f] :
            ks \in [1..d -> Kinds], b \in BOOLEAN, t \in {"logit", "probit"}, a \in BOOLEAN, f \in BOOLEAN}
         : d \in 1..MaxDims}

Cols(c, k) == {i \in 1..c.d : c.kinds[i] = k}
\* FlowTransform = CompositeTransform without the periodic stage
PeriodicCols(c) == IF c.flowt THEN {} ELSE Cols(c, "periodic")
\* bounded parameters: finite bounds and not periodic (for FlowTransform the periodic list is empty,
\* so parameters with finite bounds that the user calls periodic are treated as bounded)
BoundedCols(c) == IF ~c.b2u THEN {}
                  ELSE IF c.flowt THEN Cols(c, "bounded") \cup Cols(c, "periodic")
                  ELSE Cols(c, "bounded")

Stages(c) ==
  (IF PeriodicCols(c) # {} THEN <<[kind |-> "periodic", cols |-> PeriodicCols(c)]>> ELSE <<>>)
  \o (IF BoundedCols(c) # {} THEN <<[kind |-> c.btrans, cols |-> BoundedCols(c)]>> ELSE <<>>)
  \o (IF c.affine THEN <<[kind |-> "affine", cols |-> 1..c.d]>> ELSE <<>>)

(* ---- symbolic semantics ------------------------------------------------ *)
\* a term is a sequence of applied map names, innermost first; x inside its bounds
ApplyStage(terms, st) == [i \in DOMAIN terms |-> IF i \in st.cols THEN Append(terms[i], st.kind) ELSE terms[i]]
InvName(k) == "inv_" \o k
\* cancellation: an inverse map directly after its forward map disappears; wrapping a value that is
\* already inside [lower, upper) is the identity
Cancel(t, k) ==
  IF Len(t) > 0 /\ t[Len(t)] = k THEN SubSeq(t, 1, Len(t) - 1)
  ELSE IF k = "periodic" /\ Len(t) = 0 THEN t
  ELSE Append(t, InvName(k))
UnapplyStage(terms, st) == [i \in DOMAIN terms |-> IF i \in st.cols THEN Cancel(terms[i], st.kind) ELSE terms[i]]

RECURSIVE Fwd(_, _, _)
Fwd(terms, sts, k) == IF k > Len(sts) THEN terms ELSE Fwd(ApplyStage(terms, sts[k]), sts, k + 1)
RECURSIVE Inv(_, _, _)
Inv(terms, sts, k) == IF k = 0 THEN terms ELSE Inv(UnapplyStage(terms, sts[k]), sts, k - 1)

X0(c) == [i \in 1..c.d |-> <<>>]
\* the periodic stage maps an in-range x to itself
NormalizeWrap(terms) == [i \in DOMAIN terms |-> IF Len(terms[i]) > 0 /\ terms[i][1] = "periodic" THEN Tail(terms[i]) ELSE terms[i]]
Forward(c) == NormalizeWrap(Fwd(X0(c), Stages(c), 1))
InverseOfForward(c) == Inv(Forward(c), Stages(c), Len(Stages(c)))

\* log-Jacobian bookkeeping: multiset of signed stage terms
JFwd(c) == [k \in 1..Len(Stages(c)) |-> <<Stages(c)[k].kind, 1>>]
JInv(c) == [k \in 1..Len(Stages(c)) |-> <<Stages(c)[Len(Stages(c)) + 1 - k].kind, 0 - 1>>]

RoundTrip == \A c \in {cur} : InverseOfForward(c) = X0(c)
InvJacNeg == \A c \in {cur} : \A k \in 1..Len(Stages(c)) :
                \E m \in 1..Len(Stages(c)) : JInv(c)[m][1] = JFwd(c)[k][1] /\ JInv(c)[m][2] = 0 - JFwd(c)[k][2]
CompositeOrder == \A c \in {cur} : \A a, b \in 1..Len(Stages(c)) :
                    a < b => /\ (Stages(c)[a].kind = "affine" => FALSE)
                             /\ (Stages(c)[b].kind = "periodic" => FALSE)
JacAccumulates == \A c \in {cur} : Len(JFwd(c)) = Len(Stages(c)) /\ Len(JInv(c)) = Len(Stages(c))
\* every column of a stage is transformed by that stage exactly once in forward
OnceEach == \A c \in {cur} : \A i \in 1..c.d :
              Len(Fwd(X0(c), Stages(c), 1)[i]) = Cardinality({k \in 1..Len(Stages(c)) : i \in Stages(c)[k].cols})


(* ---- elementary maps: expression trees --------------------------------- *)
V(n) == [op |-> "var", name |-> n]
K(n, d) == [op |-> "const", num |-> n, den |-> d]
Bin(o, a, b) == [op |-> o, a |-> a, b |-> b]
Un(o, a) == [op |-> o, a |-> a]
Width == Bin("sub", V("upper"), V("lower"))
Unit(x) == Bin("div", Bin("sub", x, V("lower")), Width)
ClipU(u) == Un("clip_eps", u)                       \* clip(u, eps, 1 - eps)
JUnit == Un("neg", Un("ln", Width))

Elementary ==
  [periodic |->
     [fwd |-> Bin("add", V("lower"), Bin("pymod", Bin("sub", V("x"), V("lower")), Width)),
      jfwd |-> K(0, 1),
      inv |-> Bin("add", V("lower"), Bin("pymod", Bin("sub", V("y"), V("lower")), Width)),
      jinv |-> K(0, 1)],
   logit |->
     [fwd |-> LET u == ClipU(Unit(V("x"))) IN Bin("sub", Un("ln", u), Un("ln", Bin("sub", K(1, 1), u))),
      jfwd |-> LET u == ClipU(Unit(V("x"))) IN
               Bin("add", Un("neg", Bin("add", Un("ln", u), Un("ln", Bin("sub", K(1, 1), u)))), JUnit),
      inv |-> LET u == Bin("div", K(1, 1), Bin("add", K(1, 1), Un("exp", Un("neg", V("y")))))
              IN Bin("add", V("lower"), Bin("mul", Width, u)),
      jinv |-> LET u == Bin("div", K(1, 1), Bin("add", K(1, 1), Un("exp", Un("neg", V("y")))))
               IN Bin("sub", Bin("add", Un("ln", u), Un("ln", Bin("sub", K(1, 1), u))), JUnit)],
   probit |->
     [fwd |-> LET u == ClipU(Unit(V("x"))) IN
              Bin("mul", Un("sqrt", K(2, 1)), Un("erfinv", Bin("sub", Bin("mul", K(2, 1), u), K(1, 1)))),
      jfwd |-> LET u == ClipU(Unit(V("x")))
                   y == Bin("mul", Un("sqrt", K(2, 1)), Un("erfinv", Bin("sub", Bin("mul", K(2, 1), u), K(1, 1))))
               IN Bin("add", Bin("mul", K(1, 2), Bin("add", Un("ln", Bin("mul", K(2, 1), Un("pi", K(0, 1)))), Bin("mul", y, y))), JUnit),
      inv |-> LET u == Bin("mul", K(1, 2), Bin("add", K(1, 1), Un("erf", Bin("div", V("y"), Un("sqrt", K(2, 1))))))
              IN Bin("add", V("lower"), Bin("mul", Width, u)),
      jinv |-> Bin("sub", Un("neg", Bin("mul", K(1, 2), Bin("add", Un("ln", Bin("mul", K(2, 1), Un("pi", K(0, 1)))), Bin("mul", V("y"), V("y"))))), JUnit)],
   affine |->
     [fwd |-> Bin("div", Bin("sub", V("x"), V("mean")), V("std")),
      jfwd |-> Un("neg", Un("ln", Un("abs", V("std")))),
      inv |-> Bin("add", Bin("mul", V("y"), V("std")), V("mean")),
      jinv |-> Un("ln", Un("abs", V("std")))]]

(* ---- exact rational parts checked by TLC on the lattice ---------------- *)
\* rationals as <<num, den>>, den > 0
RSub(a, b) == <<a[1] * b[2] - b[1] * a[2], a[2] * b[2]>>
RAdd(a, b) == <<a[1] * b[2] + b[1] * a[2], a[2] * b[2]>>
RLt(a, b) == a[1] * b[2] < b[1] * a[2]
RLe(a, b) == a[1] * b[2] <= b[1] * a[2]
FloorDiv(n, d) == IF n >= 0 THEN n \div d ELSE 0 - (((0 - n) + d - 1) \div d)
\* Python's  v % w  for rationals v, w > 0 :  v - w * floor(v / w)
RPyMod(v, w) == LET q == FloorDiv(v[1] * w[2], v[2] * w[1]) IN RSub(v, <<q * w[1], w[2]>>)
WrapVal(x, lo, hi) == RAdd(lo, RPyMod(RSub(x, lo), RSub(hi, lo)))
\* TLC integers are 32-bit: the exact laws run on the small part of the lattice; the rest of the
\* lattice is exported for the extended-precision oracle of the harness
Abs(n) == IF n < 0 THEN 0 - n ELSE n
Small(r) == Abs(r[1]) <= 64 /\ r[2] <= 8
ExactBounds == {b \in BoundsSet : Small(b[1]) /\ Small(b[2])}
ExactPoints == {x \in WrapPoints : Small(x)}
WrapRange == \A b \in ExactBounds : \A x \in ExactPoints :
               LET y == WrapVal(x, b[1], b[2]) IN RLe(b[1], y) /\ RLt(y, b[2])
\* wrapping differs from the input by an integer number of periods
WrapPeriodic == \A b \in ExactBounds : \A x \in ExactPoints :
               LET y == WrapVal(x, b[1], b[2]) w == RSub(b[2], b[1]) dlt == RSub(x, y)
               IN (dlt[1] * w[2]) % (dlt[2] * w[1]) = 0
ASSUME WrapRange /\ WrapPeriodic

Export == [configs |-> SetToSeq({[d |-> c.d, kinds |-> c.kinds, b2u |-> c.b2u, btrans |-> c.btrans,
                                  affine |-> c.affine, flowt |-> c.flowt,
                                  stages |-> [k \in 1..Len(Stages(c)) |->
                                                [kind |-> Stages(c)[k].kind, cols |-> SetToSortSeq(Stages(c)[k].cols, <)]]]
                                 : c \in Configs}),
           elementary |-> Elementary,
           bounds |-> SetToSeq(BoundsSet), fracs |-> SetToSeq(Fracs),
           wrappoints |-> SetToSeq(WrapPoints),
           wrap |-> SetToSeq({[b |-> b, x |-> x, y |-> WrapVal(x, b[1], b[2])] : b \in ExactBounds, x \in ExactPoints})]
ASSUME PrintT(<<"NCASES", Cardinality(Configs)>>)
ASSUME JsonSerialize(IOEnv.OUT_FILE, Export)

\* one TLC state per case: the laws are state invariants evaluated on every case
Init == cur \in Configs
Next == UNCHANGED cur
Spec == Init /\ [][Next]_cur
=============================================================================
