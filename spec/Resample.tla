---------------------------- MODULE Resample ----------------------------
(* Exact-arithmetic reference model of SMCSamples.resample
   (src/aspire/samples.py): selection probabilities proportional to the
   incremental weight of the temperature move, every field of a drawn
   particle copied from the same source row, new temperature and size.

   Log-densities live on a lattice: row i has  log L + log pi - log q =
   k_i * ln 2  with k_i a multiple of Den, temperatures are j/Den, so the
   incremental weight 2^((bt-bf)/Den * k_i) is an exact power of two and the
   probability vector is an exact rational.  Den = 4 gives the coarse
   ladder 0, 1/4, ..., 1; Den = 2^21 gives temperature moves of 4.8e-7
   (the smallest step the adaptive bisection takes) on sharply peaked
   targets, where the incremental weights are still far from uniform.  The index vector (the random
   stream) is chosen by TLC.  Every case is exported with the expected
   outcome and replayed on the real code with a scripted generator.  The
   outcome is a function of the population's *current* fields and
   temperature: a quarter of the cases are replayed on an object that held
   other values and was queried for the weights of the same move before.  *)
EXTENDS Integers, Sequences, FiniteSets, SequencesExt, FiniteSetsExt, Json, IOUtils, TLC

VARIABLE cur      \* the case under examination (one TLC state per case)

CONSTANTS Den,       \* denominator of the temperature lattice
          Ks,        \* admissible exponents (multiples of Den); the value Dead stands for log L = -inf
                     \* (zero incremental weight: such a row may never be drawn)
          NMin, NMax,
          Betas,     \* temperature numerators, subset of 0..Den
          MaxMove,   \* largest temperature move bt - bf considered (keeps 2^(d*k/Den) a machine integer)
          MaxIdx     \* cap on index vectors per case (the rest is sampled by hash)

Dead == 99                                \* never a multiple of Den
Pow2(n) == IF n = 0 THEN 1 ELSE 2 ^ n     \* n >= 0

\* weights as integers: 2^(d*k/Den - min)  for d = bt - bf (numerators)
Live(ks) == {i \in 1..Len(ks) : ks[i] # Dead}
Expo(ks, d) == [i \in 1..Len(ks) |-> IF ks[i] = Dead THEN 0 ELSE (d * (ks[i] \div Den))]
MinLive(ks, q) == CHOOSE m \in {q[i] : i \in Live(ks)} : \A i \in Live(ks) : m <= q[i]
IntW(ks, d) == LET e == Expo(ks, d) m == MinLive(ks, e)
               IN [i \in 1..Len(ks) |-> IF ks[i] = Dead THEN 0 ELSE Pow2(e[i] - m)]
SumSeq(q) == FoldLeft(LAMBDA a, b : a + b, 0, q)

\* index vectors: all of them for small cases, otherwise a deterministic subsample
AllIdx(ks, sz) == [1..sz -> Live(ks)]      \* a generator never returns a row of probability zero
Pick(S) == IF Cardinality(S) <= MaxIdx THEN S
           ELSE LET q == SetToSeq(S) step == Len(q) \div MaxIdx
                IN {q[1 + ((j * step) % Len(q))] : j \in 0..(MaxIdx - 1)}

Sizes(n) == {n - 1, n, n + 1} \ {0}

Case(ks, bf, bt, sz, idx) ==
  LET w == IntW(ks, bt - bf) IN
  [ks |-> ks, bf |-> bf, bt |-> bt, size |-> sz, idx |-> idx,
   wnum |-> w, wden |-> SumSeq(w),               \* p_i = wnum[i] / wden
   rows |-> idx,                                 \* row r of the result is source row idx[r], all fields
   newbeta |-> bt]

\* The case space is the set of initial states (an existential Init lets TLC enumerate it directly;
\* the states are dumped and replayed on the real code).
InitCases ==
  \E ks \in {q \in UNION {[1..n -> Ks] : n \in NMin..NMax} : Live(q) # {}} :
  \E bf \in Betas :
  \* a dead row makes the incremental weight 0 * (-inf) undefined when the temperature does not move
  \E bt \in {b \in Betas : (b > bf /\ b - bf <= MaxMove) \/ (b = bf /\ Live(ks) = 1..Len(ks))} :
  \E sz \in Sizes(Len(ks)) :
  \E idx \in Pick(AllIdx(ks, sz)) :
     cur = Case(ks, bf, bt, sz, idx)

(* laws of the reference itself *)
ProbsSumToOne == \A c \in {cur} : SumSeq(c.wnum) = c.wden
ProbsPositive == \A c \in {cur} : \A i \in 1..Len(c.wnum) : (c.wnum[i] > 0) <=> (c.ks[i] # Dead)
DrawnRowsLive == \A c \in {cur} : \A r \in 1..Len(c.idx) : c.ks[c.idx[r]] # Dead
\* a larger incremental log-weight never gets a smaller probability when moving up in temperature
Monotone == \A c \in {cur} : \A i, j \in 1..Len(c.ks) :
               (c.bt > c.bf /\ c.ks[i] # Dead /\ c.ks[j] # Dead /\ c.ks[i] >= c.ks[j]) => c.wnum[i] >= c.wnum[j]
SameBetaUniform == \A c \in {cur} : c.bt = c.bf => \A i \in 1..Len(c.wnum) : c.wnum[i] = 1


\* one TLC state per case: the laws are state invariants evaluated on every case
Init == InitCases
Next == UNCHANGED cur
Spec == Init /\ [][Next]_cur
=============================================================================
