---- MODULE MC_Target ----
EXTENDS Target
MCVals == {-2, -1, 0, 1, 2}
MCJacs == {-2, 0, 1}
====
