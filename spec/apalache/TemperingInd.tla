--------------------------- MODULE TemperingInd ---------------------------
(* Unbounded safety of the adaptive temperature controller: an inductive
   invariant discharged by Apalache for EVERY grid resolution K, tolerance,
   floor and cap (symbolic constants), complementing TLC's exhaustive run of
   Tempering.tla at K = 8.  Same actions as Tempering.tla (adaptive branch,
   repaired variants GuardRescale = ProgressRule = TRUE), integer state only
   (the schedule sequence is replaced by `prev`, the previous temperature). *)
EXTENDS Integers

CONSTANTS
  \* @type: Int;
  K,
  \* @type: Int;
  Tol,
  \* @type: Int;
  MinStep0,
  \* @type: Int;
  MaxN

VARIABLES
  \* @type: Int;
  beta,
  \* @type: Int;
  prev,
  \* @type: Int;
  iter,
  \* @type: Int;
  minStep,
  \* @type: Int;
  theta,
  \* @type: Int;
  lo,
  \* @type: Int;
  hi,
  \* @type: Int;
  star,
  \* @type: Str;
  pc,
  \* @type: Bool;
  adaptiveMin

ConstInit ==
  /\ K \in Int /\ Tol \in Int /\ MinStep0 \in Int /\ MaxN \in Int
  /\ K >= 1 /\ Tol >= 1 /\ MinStep0 >= 0 /\ MinStep0 <= K /\ MaxN >= 0

Min(a, b) == IF a < b THEN a ELSE b
Max(a, b) == IF a > b THEN a ELSE b
Meets(b) == b <= theta

Init ==
  /\ beta = 0 /\ prev = 0 /\ iter = 0 /\ lo = 0 /\ hi = 0 /\ star = 0
  /\ \E t \in Int : t >= 0 /\ t <= K /\ theta = t
  /\ pc = "top"
  /\ IF MinStep0 > 0 THEN minStep = MinStep0 /\ adaptiveMin = FALSE
     ELSE IF MaxN > 0 THEN minStep = 1 /\ adaptiveMin = TRUE
     ELSE minStep = 0 /\ adaptiveMin = FALSE

Top ==
  /\ pc = "top" /\ iter' = iter + 1 /\ prev' = beta /\ pc' = "bisect_start"
  /\ UNCHANGED <<beta, minStep, theta, lo, hi, star, adaptiveMin>>

BisectStart ==
  /\ pc = "bisect_start" /\ hi' = K /\ lo' = (IF Meets(K) THEN K ELSE beta) /\ pc' = "bisect"
  /\ UNCHANGED <<beta, prev, iter, minStep, theta, star, adaptiveMin>>

BisectProbe ==
  /\ pc = "bisect" /\ hi - lo > Tol
  /\ \E p \in Int : /\ lo < p /\ p < hi
                    /\ IF Meets(p) THEN lo' = p /\ hi' = hi ELSE hi' = p /\ lo' = lo
  /\ UNCHANGED <<beta, prev, iter, minStep, theta, star, pc, adaptiveMin>>

BisectDone ==
  /\ pc = "bisect" /\ hi - lo <= Tol /\ star' = lo /\ pc' = "rescale"
  /\ UNCHANGED <<beta, prev, iter, minStep, theta, lo, hi, adaptiveMin>>

Rescale ==
  /\ pc = "rescale" /\ pc' = "floor"
  /\ IF adaptiveMin /\ star < K
       THEN \E m \in Int : m >= minStep /\ m <= K /\ minStep' = m
       ELSE minStep' = minStep
  /\ UNCHANGED <<beta, prev, iter, theta, lo, hi, star, adaptiveMin>>

ApplyFloor ==
  /\ pc = "floor"
  /\ LET cand == Max(star, beta + minStep)
         prog == IF cand = beta THEN beta + Tol ELSE cand
     IN beta' = Min(K, prog)
  /\ pc' = "record"
  /\ UNCHANGED <<prev, iter, minStep, theta, lo, hi, star, adaptiveMin>>

Record ==
  /\ pc = "record" /\ pc' = "mutate"
  /\ UNCHANGED <<beta, prev, iter, minStep, theta, lo, hi, star, adaptiveMin>>

NewPopulation ==
  /\ pc = "mutate" /\ pc' = "exit_test"
  /\ \E t \in Int : t >= beta /\ t <= K /\ theta' = t
  /\ UNCHANGED <<beta, prev, iter, minStep, lo, hi, star, adaptiveMin>>

ExitTest ==
  /\ pc = "exit_test"
  /\ pc' = (IF beta = K \/ (MaxN > 0 /\ iter >= MaxN) THEN "done" ELSE "top")
  /\ UNCHANGED <<beta, prev, iter, minStep, theta, lo, hi, star, adaptiveMin>>

Next == Top \/ BisectStart \/ BisectProbe \/ BisectDone \/ Rescale \/ ApplyFloor \/ Record \/ NewPopulation \/ ExitTest

PCs == {"top", "bisect_start", "bisect", "rescale", "floor", "record", "mutate", "exit_test", "done"}

\* the inductive invariant
IndInv ==
  /\ pc \in PCs
  /\ 0 <= prev /\ prev <= beta /\ beta <= K
  /\ iter >= 0 /\ minStep >= 0
  /\ prev <= theta /\ theta <= K
  /\ (pc \notin {"record", "mutate"}) => beta <= theta      \* the oracle belongs to the population the step started from
  /\ (pc = "top") => beta < K
  /\ (pc \in {"bisect_start", "bisect", "rescale", "floor"}) => (prev = beta /\ beta < K)
  /\ (pc = "bisect") => (beta <= lo /\ lo <= hi /\ hi <= K /\ (lo = beta \/ Meets(lo)) /\ (hi = K \/ ~Meets(hi)) /\ (lo = K => Meets(K)))
  /\ (pc \in {"rescale", "floor"}) => (beta <= star /\ star <= K /\ (star = beta \/ Meets(star)))
  /\ (pc \in {"record", "mutate", "exit_test"}) => (prev < beta)
  /\ (pc = "done") => (beta = K \/ (MaxN > 0 /\ iter >= MaxN))
  /\ (MinStep0 > 0) => minStep = MinStep0
  /\ adaptiveMin = (MinStep0 = 0 /\ MaxN > 0)

\* arbitrary state satisfying the invariant (for the inductive step)
IndInit ==
  /\ beta \in Int /\ prev \in Int /\ iter \in Int /\ minStep \in Int /\ theta \in Int
  /\ lo \in Int /\ hi \in Int /\ star \in Int /\ pc \in PCs /\ adaptiveMin \in BOOLEAN
  /\ IndInv

\* the C06 safety properties as state predicates
Safety ==
  /\ (pc \in {"record", "mutate", "exit_test"}) => (prev < beta /\ 0 < beta /\ beta <= K)      \* strictly increasing, in (0, 1]
  /\ (pc = "done") => (beta = K \/ (MaxN > 0 /\ iter >= MaxN))                                   \* ends at 1 or at the cap
=============================================================================
