----------------------------- MODULE Routing -----------------------------
(* Keyword and random-source routing of Aspire.sample_posterior
   (src/aspire/aspire.py: the kwargs split by membership in
   signature(SamplerClass.__init__)) and of each sampler's constructor /
   sample() (samplers/smc/base.py, smc/minipcn.py, smc/emcee.py, mcmc.py).

   The parameter sets are *extracted from the working tree* with
   inspect.signature and written as literal constants by the harness:
     InitHasRng[c], SampleHasRng[c], SampleHasKwargs[c]
   The assignment statements of each class are the actions below.
   A generator is an abstract token: "user", "default_init" (created by the
   constructor), "default_sample" (created by sample()), "private" (the
   kernel's own, not reachable from aspire's API), "none".               *)
EXTENDS Naturals, TLC

CONSTANTS Classes, InitHasRng, SampleHasRng, SampleHasKwargs,
          KeepsInitRng,      \* classes whose sample() keeps a constructor-supplied generator
          SampleUsesRng,     \* classes whose sample() hands its rng parameter to the kernel
          KernelPrivate      \* classes whose kernel owns a private generator

Routes == {"init", "sample", "top", "absent"}

VARIABLES cls, route, pc, initArg, sampleArg, selfRng, userInit, resampleGen, kernelGen, outcome
vars == <<cls, route, pc, initArg, sampleArg, selfRng, userInit, resampleGen, kernelGen, outcome>>

Init ==
  /\ cls \in Classes /\ route \in Routes
  /\ pc = "split" /\ initArg = "none" /\ sampleArg = "none" /\ selfRng = "none"
  /\ userInit = FALSE /\ resampleGen = "none" /\ kernelGen = "none" /\ outcome = "running"

\* sample_posterior: kwargs in the constructor signature go to the constructor, the rest to sample()
Split ==
  /\ pc = "split"
  /\ LET toInit == (route = "init" /\ InitHasRng[cls]) \/ (route = "top" /\ InitHasRng[cls])
         toSample == (route = "sample") \/ (route = "top" /\ ~InitHasRng[cls])
     IN /\ initArg' = IF toInit THEN "user" ELSE "none"
        /\ sampleArg' = IF toSample THEN "user" ELSE "none"
        /\ outcome' = IF (route = "init" /\ ~InitHasRng[cls])
                         \/ (toSample /\ ~SampleHasRng[cls] /\ ~SampleHasKwargs[cls])
                      THEN "type_error" ELSE "running"
  /\ pc' = "construct"
  /\ UNCHANGED <<cls, route, selfRng, userInit, resampleGen, kernelGen>>

Construct ==
  /\ pc = "construct" /\ outcome = "running"
  /\ selfRng' = IF initArg = "user" THEN "user" ELSE "default_init"
  /\ userInit' = (initArg = "user")
  /\ pc' = "sample"
  /\ UNCHANGED <<cls, route, initArg, sampleArg, resampleGen, kernelGen, outcome>>

Sample ==
  /\ pc = "sample"
  /\ selfRng' = IF sampleArg = "user" /\ SampleHasRng[cls] /\ cls \in KeepsInitRng THEN "user"
                ELSE IF cls \in KeepsInitRng /\ ~userInit THEN "default_sample"
                ELSE selfRng
  /\ pc' = "run"
  /\ UNCHANGED <<cls, route, initArg, sampleArg, userInit, resampleGen, kernelGen, outcome>>

Run ==
  /\ pc = "run"
  /\ resampleGen' = selfRng
  /\ kernelGen' = IF cls \in KernelPrivate THEN "private"
                  ELSE IF cls \in SampleUsesRng THEN (IF sampleArg = "user" THEN "user" ELSE "default_sample")
                  ELSE selfRng
  /\ pc' = "done" /\ outcome' = "ok"
  /\ UNCHANGED <<cls, route, initArg, sampleArg, selfRng, userInit>>

Next == Split \/ Construct \/ Sample \/ Run
Spec == Init /\ [][Next]_vars

Supplied == route # "absent" /\ outcome # "type_error"
\* C20: a generator supplied by the user is the one actually used, wherever aspire draws
UserRngUsed ==
  (pc = "done" /\ Supplied) =>
     /\ (cls \notin KernelPrivate => kernelGen = "user")
     /\ (cls \notin SampleUsesRng => resampleGen = "user")
\* the kernel-private classes are the recorded exception (see known_findings.json)
UserRngUsedExceptPrivate ==
  (pc = "done" /\ Supplied /\ cls \notin KernelPrivate) =>
     /\ kernelGen = "user" /\ (cls \notin SampleUsesRng => resampleGen = "user")
Export == (pc = "done" \/ outcome = "type_error") =>
            PrintT(<<"CASE", cls, route, outcome, resampleGen, kernelGen>>)
=============================================================================
