"""C06 / C07 (spec -> code, direct): the temperature controller SMCSampler.determine_beta called on
scripted populations over a grid of states and options (Tempering.tla's Step relation evaluated call
by call).  The ESS of the incremental weights is recomputed independently in extended precision."""
from __future__ import annotations

import math

import numpy as np

import smcdrv

LD = np.longdouble


def _eff(ll, b_from, b_to):
    lw = (LD(b_to) - LD(b_from)) * np.asarray(ll, dtype=LD)
    m = np.max(lw)
    w = np.exp(lw - m)
    return float((w.sum() ** 2) / (w ** 2).sum() / len(w))


def replay(verdict, tier, seed, owner):
    """owner 'C06': never raises, result in (beta_prev, 1], floor honoured; 'C07': maximal admissible step"""
    from aspire.samplers.smc.minipcn import MiniPCNSMC
    from aspire.samples import SMCSamples
    xp = smcdrv.get_xp("numpy")
    rng = np.random.default_rng(seed + 3)
    n_calls = 0

    class F:
        def log_prob(self, x):
            return xp.zeros(len(x))

    smp = MiniPCNSMC(log_likelihood=lambda s: None, log_prior=lambda s: None, dims=1, prior_flow=F(), xp=xp, dtype="float64")
    Ns = (8, 64)
    widths = (1e-3, 0.03, 0.3, 3.0) if tier == "quick" else (1e-4, 1e-3, 0.01, 0.03, 0.1, 0.3, 1.0, 3.0, 30.0)
    prevs = (0.0, 0.25, 0.9, 1 - 1e-3, 1 - 5e-7)
    targets = (0.5, 0.99, (0.3, 0.9))
    for N in Ns:
        x = rng.normal(0.0, 1.0, size=(N, 1))
        for w in widths:
            ll = -0.5 * (x[:, 0] / w) ** 2
            for bp in prevs:
                pop = SMCSamples(x, log_likelihood=ll, log_prior=np.zeros(N), log_q=np.zeros(N), xp=xp, dtype="float64", beta=bp)
                for tg in targets:
                    for ms in (0.0, 0.2):
                        for tol in (1e-6, 0.05):
                            for bstep in (float("nan"), 0.5, 0.25):
                                n_calls += 1
                                smp.adaptive = True
                                smp.adaptive_min_step = False
                                smp.target_efficiency = tg
                                smp.target_efficiency_rate = 1.0
                                scen = {"builder": "controller", "params": {"N": N, "width": w, "beta_prev": bp, "target": tg, "min_step": ms, "tol": tol, "beta_step": None if math.isnan(bstep) else bstep}}
                                tag = f"direct|min_step={ms}|tol={tol}|n_steps={'none' if math.isnan(bstep) else int(round(1 / bstep))}"
                                try:
                                    b, _ = smp.determine_beta(pop, bp, bstep, ms, beta_tolerance=tol)
                                    b = float(b)
                                except Exception as ex:
                                    if owner == "C06":
                                        verdict.violation(f"NeverRaises|determine_beta|{tag}|{type(ex).__name__}", f"determine_beta raised {type(ex).__name__}: {str(ex)[:120]} at beta={bp}, width {w}, target {tg}", scen)
                                    continue
                                T = tg if not isinstance(tg, tuple) else tg[0] + (tg[1] - tg[0]) * bp
                                if owner == "C06":
                                    if not (math.isfinite(b) and bp < b <= 1.0):
                                        verdict.violation(f"StrictlyIncreasing|determine_beta|{tag}", f"determine_beta returned {b!r} from beta={bp} (must lie in (beta, 1]); width {w}, target {tg}", scen)
                                    elif ms > 0 and b < min(bp + ms, 1.0) - 1e-12:
                                        verdict.violation(f"FloorHonoured|determine_beta|{tag}", f"step {b - bp} below the minimum step {ms} at beta={bp}", scen)
                                    continue
                                # ---- C07: the step is the largest admissible one
                                if not (math.isfinite(b) and bp < b <= 1.0):
                                    continue
                                margin = 1e-9
                                e1 = _eff(ll, bp, 1.0)
                                forced = ms > 0 and abs(b - min(bp + ms, 1.0)) <= 1e-12
                                if e1 >= T + margin:
                                    if b != 1.0:
                                        verdict.violation(f"AdaptiveMaximal|determine_beta|{tag}", f"the full step to 1 meets the target (eff {e1:.4g} >= {T:.4g}) but determine_beta stopped at {b!r} from {bp}", scen)
                                    continue
                                if forced or e1 >= T - margin:
                                    continue
                                eb = _eff(ll, bp, b)
                                lo = max(bp, b - tol)
                                meets_near = _eff(ll, bp, lo) >= T - margin if lo > bp else True
                                nxt = min(1.0, b + tol)
                                next_meets = _eff(ll, bp, nxt) >= T + margin if nxt > b else False
                                if eb < T - margin and not meets_near:
                                    # nothing above beta + tol meets the target: only the smallest rejected probe is allowed
                                    if b - bp > 2 * tol + 1e-15:
                                        verdict.violation(f"AdaptiveMaximal|determine_beta|{tag}", f"step {bp} -> {b!r} gives eff {eb:.4g} < target {T:.4g}, no minimum step in force (min_step {ms}, eff at 1: {e1:.4g})", scen)
                                elif next_meets:
                                    verdict.violation(f"AdaptiveMaximal|determine_beta|{tag}", f"step {bp} -> {b!r} is not maximal: {nxt} still meets the target {T:.4g}", scen)
    return {"controller_calls": n_calls}
