"""Dispatch.tla cells replayed on Aspire.get_sampler_class / init_sampler, get_flow_wrapper and the
target_efficiency setter (behaviour coverage beyond the listed properties; reported under C05)."""
from __future__ import annotations

import numpy as np

import smcdrv
import tlacases


def replay(verdict, tier, seed):
    from aspire import Aspire
    from aspire.flows import get_flow_wrapper
    spec, r, n = tlacases.export_cases("Dispatch", {}, name="dispatch")
    xp = smcdrv.get_xp("numpy")
    n_eval = 0
    for c in spec["cases"]:
        n_eval += 1
        scen = {"builder": "dispatch_case", "params": {"case": c}}
        if c["kind"] == "sampler":
            prob = smcdrv.Problem(2, 0.5, 1.0)
            tr = smcdrv.Tracer(prob, smcdrv.IdTable())
            a = Aspire(log_likelihood=tr.log_likelihood, log_prior=tr.log_prior, dims=2, parameters=["x_0", "x_1"],
                       prior_bounds={"x_0": [-5, 5], "x_1": [-5, 5]}, flow=smcdrv.make_flow(dict(smcdrv.DEFAULT), prob, xp), xp=xp)
            pre = {"unset": None, "None-string": "None"}.get(c["precond"], c["precond"])
            try:
                smp = a.init_sampler(c["type"], preconditioning=pre)
                got_cls = type(smp).__name__
                got_tr = type(smp.preconditioning_transform).__name__
                opts = None
                if got_tr == "CompositeTransform":
                    t = smp.preconditioning_transform
                    opts = {"affine_transform": bool(t.affine_transform), "bounded_to_unbounded": bool(t.bounded_to_unbounded),
                            "bounded_transform": t.bounded_transform}
            except ValueError:
                got_cls, got_tr, opts = "ValueError", "ValueError", None
            except Exception as ex:
                got_cls, got_tr, opts = type(ex).__name__, type(ex).__name__, None
            exp_cls = c["cls"] if c["transform"] != "ValueError" else "ValueError"
            if got_cls != exp_cls or got_tr != c["transform"]:
                verdict.model_drift(f"Dispatch: init_sampler({c['type']!r}, preconditioning={pre!r}) -> {got_cls}/{got_tr}, specification {exp_cls}/{c['transform']}")
            elif opts is not None and opts != {k: (bool(v) if isinstance(v, bool) else v) for k, v in spec["defaults"].items()}:
                verdict.model_drift(f"Dispatch: default pre-conditioner options {opts} != {spec['defaults']}")
        elif c["kind"] == "flow":
            try:
                F, fxp = get_flow_wrapper(backend=c["backend"], flow_matching=c["matching"])
                got = F.__name__
            except (ValueError, NotImplementedError) as ex:
                got = type(ex).__name__
            if got != c["cls"]:
                verdict.model_drift(f"Dispatch: get_flow_wrapper({c['backend']!r}, flow_matching={c['matching']}) -> {got}, specification {c['cls']}")
        else:
            from aspire.samplers.smc.minipcn import MiniPCNSMC
            smp = MiniPCNSMC.__new__(MiniPCNSMC)
            val = c["a"] / 10.0 if c["form"] == "float" else (c["a"] / 10.0, c["b"] / 10.0)
            try:
                smp.target_efficiency = val
                ok = True
            except ValueError:
                ok = False
            if ok != c["ok"]:
                verdict.model_drift(f"Dispatch: target_efficiency = {val!r} accepted={ok}, specification {c['ok']}")
    return {"dispatch_cases": n, "dispatch_replays": n_eval}
