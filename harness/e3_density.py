"""C03 (spec -> code): the density book-keeping laws of Density.tla replayed on the real zuko and
flowjax wrappers in every configuration cell (bounded transform x affine x dtype x state)."""
from __future__ import annotations

import json
import multiprocessing as mp
import os
import random
import time

import numpy as np

import common
import tlacases
from common import MachineryError, Verdict, cleanup, workdir, write_evidence, STD_ASSUMPTIONS

BOUNDS = {"a": [-2.0, 3.0], "b": [0.5, 4.5]}


class ConstJacTransform:
    """identity map reporting a constant log-Jacobian c (forward +c, inverse -c)"""

    def __init__(self, xp, c, dtype):
        self.xp, self.c, self.dtype = xp, float(c), dtype

    def fit(self, x):
        return x

    def forward(self, x):
        return x, self.xp.zeros(x.shape[0], dtype=x.dtype) + self.c

    def inverse(self, y):
        return y, self.xp.zeros(y.shape[0], dtype=y.dtype) - self.c

    def save(self, h5, path):
        raise NotImplementedError


def build_flow(backend, dtype, data_transform, seed=3):
    import smcdrv
    if backend == "zuko":
        import torch
        torch.set_num_threads(1)
        from aspire.flows.torch.flows import ZukoFlow
        return ZukoFlow(2, seed=seed, dtype=dtype, data_transform=data_transform, hidden_features=[8, 8])
    import jax
    smcdrv.get_xp("jax")
    from aspire.flows.jax.flows import FlowJax
    return FlowJax(2, key=jax.random.key(seed), dtype=dtype, data_transform=data_transform, nn_width=8, nn_depth=1)


def flow_xp(backend):
    import smcdrv
    if backend == "zuko":
        import array_api_compat.torch as xp
        return xp
    return smcdrv.get_xp("jax")


def run_cell(arg):
    ci, c, shift_lp, shift_lq = arg
    import h5py
    import smcdrv
    from aspire.transforms import FlowTransform
    out = {"i": ci, "viol": [], "n": 0}
    wd = workdir("density")
    try:
        be, dt = c["backend"], c["dtype"]
        eps = 2.0 ** -23 if dt == "float32" else 2.0 ** -52
        xp = flow_xp(be)
        tag = f"{be}|{c['bounded']}|{'affine' if c['affine'] else 'noaffine'}|{dt}|{c['state']}" + ("|refit" if c.get("refit") else "")
        scen = {"builder": "density_cell", "params": {"cell": c}}
        nm = c.get("names", "sorted")
        PARAMS = ["b", "a"] if nm == "unsorted" else ["a", "b"]
        sc = c.get("scale", "unit")
        b2 = {"unit": BOUNDS["b"], "tiny": [0.0, 2e-5], "huge": [-1e6, 3e6], "free": [-np.inf, np.inf], "offset": [1000.0, 1000.5]}[sc]
        pos_bounds = [BOUNDS["a"], b2]            # bounds by *position* of the parameter
        tag_scale = sc
        items = list(zip(PARAMS, pos_bounds))
        if nm == "revdict":
            items = items[::-1]
        PB = {k: list(v) for k, v in items}
        tag += "|" + nm + "|" + sc
        if sc == "offset" and dt == "float32":
            # domain: single precision resolves [1000, 1000.5] to 1.2e-4 of its width - the coordinates
            # themselves are not representable to the accuracy the comparison needs
            return out
        rng = np.random.default_rng(7)
        def col2(v):       # the second column, mapped affinely from the unit-scale support [0.5, 4.5] to the declared one
            if not np.isfinite(b2[0]):
                return np.asarray(v)
            return b2[0] + (np.asarray(v) - BOUNDS["b"][0]) / (BOUNDS["b"][1] - BOUNDS["b"][0]) * (b2[1] - b2[0])
        data = np.stack([rng.uniform(-1.5, 2.5, 96), col2(rng.uniform(1.0, 4.0, 96))], axis=1)
        try:
            tr = FlowTransform(parameters=list(PARAMS), prior_bounds=dict(PB), bounded_to_unbounded=c["bounded"] != "off",
                               bounded_transform=c["bounded"] if c["bounded"] != "off" else "logit",
                               affine_transform=c["affine"], xp=xp, dtype=dt)
            fl = build_flow(be, dt, tr)
            if c.get("refit"):
                other = np.stack([rng.uniform(0.0, 0.5, 96), col2(rng.uniform(2.0, 2.2, 96))], axis=1)   # much narrower
                if c["state"] == "untrained":
                    fl.fit_data_transform(xp.asarray(np.asarray(other, dtype=dt)))
                elif be == "zuko":
                    fl.fit(other, n_epochs=1, batch_size=48)
                else:
                    fl.fit(other, max_epochs=1, batch_size=48, show_progress=False)
            if c["state"] == "untrained":
                fl.fit_data_transform(xp.asarray(np.asarray(data, dtype=dt)))
            else:
                if be == "zuko":
                    fl.fit(data, n_epochs=2, batch_size=48)
                else:
                    fl.fit(data, max_epochs=2, batch_size=48, show_progress=False)
            probe = data[:24]
            lp_before = np.asarray(smcdrv.to_np(fl.log_prob(probe)), dtype=np.float64)
            # JacobianIncluded with the real transform: log_prob(x) = base(T(x)) + J_T(x), where T is an
            # independent copy of the data transform fitted once on the data of the last fit
            tr2 = FlowTransform(parameters=list(PARAMS), prior_bounds=dict(PB), bounded_to_unbounded=c["bounded"] != "off",
                                bounded_transform=c["bounded"] if c["bounded"] != "off" else "logit",
                                affine_transform=c["affine"], xp=xp, dtype=dt)
            tr2.fit(xp.asarray(np.asarray(data, dtype=dt)))
            xpr, jref = tr2.forward(xp.asarray(np.asarray(probe, dtype=dt)))
            if be == "zuko":
                import torch
                with torch.no_grad():
                    base = fl._flow().log_prob(xpr)
            else:
                base = fl._flow.log_prob(xpr)
            ref_lp = np.asarray(smcdrv.to_np(base), dtype=np.float64) + np.asarray(smcdrv.to_np(jref), dtype=np.float64)
            tolj = 512 * eps * np.maximum(1.0, np.abs(ref_lp)) * (8 if c["bounded"] != "off" else 1)
            if ref_lp.shape != lp_before.shape or not np.all(np.abs(ref_lp - lp_before) <= tolj):
                out["viol"].append((f"JacobianIncluded|real-transform|{tag}", f"log_prob(x) != base(T(x)) + log|det dT/dx| with T fitted on the data of the last fit (max diff {np.max(np.abs(ref_lp - lp_before)):.3g}; refit={c.get('refit')})"))
            if c["state"] == "reloaded":
                path = str(wd / "f.h5")
                # the flow is written twice (a checkpoint file, then a result file): saving is a query, the
                # second file holds the same proposal as the first
                with h5py.File(path + ".first", "w") as f:
                    fl.save(f, "flow")
                with h5py.File(path, "w") as f:
                    fl.save(f, "flow")
                with h5py.File(path, "r") as f:
                    fl = type(fl).load(f, "flow")
                lp_after = np.asarray(smcdrv.to_np(fl.log_prob(probe)), dtype=np.float64)
                tol = 64 * eps * np.maximum(1.0, np.abs(lp_before))
                if lp_after.shape != lp_before.shape or not np.all(np.abs(lp_after - lp_before) <= tol):
                    out["viol"].append((f"ReloadSameDensity|{tag}", f"log_prob after save/load differs (max {np.max(np.abs(lp_after - lp_before)):.3g})"))
            x, lq = fl.sample_and_log_prob(256)
            xn = np.asarray(smcdrv.to_np(x), dtype=np.float64)
            lqn = np.asarray(smcdrv.to_np(lq), dtype=np.float64)
            lpn = np.asarray(smcdrv.to_np(fl.log_prob(x)), dtype=np.float64)
            out["n"] += len(xn)
            # narrower than requested loses accuracy; wider (flowjax under jax_enable_x64) is harmless
            if smcdrv.width_of(x) < (32 if dt == "float32" else 64) or smcdrv.width_of(lq) < (32 if dt == "float32" else 64):
                out["viol"].append((f"SampleEvalAgree|dtype|{tag}", f"draws / log_q have width {smcdrv.width_of(x)}/{smcdrv.width_of(lq)} for a {dt} flow"))
            if c["bounded"] != "off":
                lo = np.array([BOUNDS["a"][0], b2[0]]); hi = np.array([BOUNDS["a"][1], b2[1]])
                if not (np.all(xn >= lo) and np.all(xn <= hi)):
                    out["viol"].append((f"DrawsInBounds|{tag}", f"draws outside the declared bounds: min {xn.min(0)}, max {xn.max(0)}"))
                fin = np.isfinite(lo) & np.isfinite(hi)
                u = (xn[:, fin] - lo[fin]) / (hi[fin] - lo[fin])
                margin = np.minimum(u, 1 - u).min(-1)
            else:
                margin = np.full(len(xn), 0.5)
            # points next to the clipping margin are "near": skipped
            ok = margin > (1e-3 if dt == "float32" else 1e-5)
            cond = 1.0 / np.maximum(margin, 1e-12)
            # the coordinates carry a relative error eps: in units of the interval width that is eps * |x| / width
            cs = 1.0
            if np.isfinite(b2[0]):
                cs = max(1.0, max(abs(b2[0]), abs(b2[1])) / (b2[1] - b2[0]))
            tol = 256 * eps * (np.maximum(1.0, np.abs(lpn)) + cond) * cs
            bad = ok & np.isfinite(lpn) & ~(np.abs(lqn - lpn) <= tol)
            if np.any(bad) or not np.all(np.isfinite(lqn[ok])):
                k = int(np.argmax(np.abs(lqn - lpn) * ok))
                out["viol"].append((f"SampleEvalAgree|{tag}", f"log_q returned with a draw ({lqn[k]!r}) != log_prob at that draw ({lpn[k]!r}); {int(bad.sum())} of {int(ok.sum())} draws"))
            # the same with the output-namespace option of the flow's own methods (xp=numpy)
            import array_api_compat.numpy as np_ns
            x2, lq2 = fl.sample_and_log_prob(64, xp=np_ns)
            x2n = np.asarray(smcdrv.to_np(x2), dtype=np.float64)
            lq2n = np.asarray(smcdrv.to_np(lq2), dtype=np.float64)
            lp2n = np.asarray(smcdrv.to_np(fl.log_prob(x2)), dtype=np.float64)
            if c["bounded"] != "off" and np.isfinite(b2[0]):
                u2 = (x2n[:, fin] - lo[fin]) / (hi[fin] - lo[fin])
                m2 = np.minimum(u2, 1 - u2).min(-1)
            elif c["bounded"] != "off":
                u2 = (x2n[:, :1] - lo[:1]) / (hi[:1] - lo[:1])
                m2 = np.minimum(u2, 1 - u2).min(-1)
            else:
                m2 = np.full(len(x2n), 0.5)
            ok2 = m2 > (1e-3 if dt == "float32" else 1e-5)
            tol2 = 256 * eps * (np.maximum(1.0, np.abs(lp2n)) + 1.0 / np.maximum(m2, 1e-12)) * cs
            bad2 = ok2 & np.isfinite(lp2n) & ~(np.abs(lq2n - lp2n) <= tol2)
            if type(x2).__module__.split(".")[0] != "numpy":
                out["viol"].append((f"SampleEvalAgree|xp=numpy|namespace|{tag}", f"sample_and_log_prob(n, xp=numpy) returned {type(x2).__module__} arrays"))
            elif np.any(bad2):
                k = int(np.argmax(np.abs(lq2n - lp2n) * ok2))
                out["viol"].append((f"SampleEvalAgree|xp=numpy|{tag}", f"with xp=numpy the log_q returned with a draw ({lq2n[k]!r}) != log_prob at that draw ({lp2n[k]!r}); {int(bad2.sum())} of {int(ok2.sum())} draws"))
        except Exception as ex:
            out["viol"].append((f"NeverRaises|flow|{tag}|{type(ex).__name__}", f"{type(ex).__name__}: {str(ex)[:160]}"))
        # JacobianIncluded with a fake transform: same weights, constant log-Jacobian c = 5
        if c["state"] == "untrained" and c["bounded"] == "off" and not c["affine"]:
            try:
                f0 = build_flow(be, dt, ConstJacTransform(xp, 0.0, dt), seed=9)
                f5 = build_flow(be, dt, ConstJacTransform(xp, 5.0, dt), seed=9)
                # unit-scale probe points whatever the declared support of the cell (a shift of 5 must be
                # resolvable next to the magnitude of the log-density)
                prng = np.random.default_rng(11)
                pr = xp.asarray(np.asarray(np.stack([prng.uniform(-1.5, 2.5, 16), prng.uniform(1.0, 4.0, 16)], axis=1), dtype=dt))
                d_lp = np.asarray(smcdrv.to_np(f5.log_prob(pr)), dtype=np.float64) - np.asarray(smcdrv.to_np(f0.log_prob(pr)), dtype=np.float64)
                if be == "zuko":
                    import torch
                    torch.manual_seed(5)
                x0, q0 = f0.sample_and_log_prob(16)
                if be == "zuko":
                    torch.manual_seed(5)
                x5, q5 = f5.sample_and_log_prob(16)
                same_draws = np.array_equal(np.asarray(smcdrv.to_np(x0)), np.asarray(smcdrv.to_np(x5)))
                d_lq = np.asarray(smcdrv.to_np(q5), dtype=np.float64) - np.asarray(smcdrv.to_np(q0), dtype=np.float64)
                tolc = 64 * eps * 10
                if not np.all(np.abs(d_lp - shift_lp) <= tolc):
                    out["viol"].append((f"JacobianIncluded|log_prob|{be}|{dt}", f"a data transform with constant log-Jacobian 5 shifts log_prob by {d_lp[0]!r}, specification +{shift_lp}"))
                if same_draws and not np.all(np.abs(d_lq - shift_lq) <= tolc):
                    out["viol"].append((f"JacobianIncluded|sample|{be}|{dt}", f"a data transform with constant log-Jacobian 5 shifts the log_q returned with draws by {d_lq[0]!r}, specification +{shift_lq}"))
                out["n"] += 32
            except Exception as ex:
                out["viol"].append((f"NeverRaises|flow|fake-transform|{be}|{dt}|{type(ex).__name__}", f"{type(ex).__name__}: {str(ex)[:160]}"))
    except MachineryError:
        raise
    except Exception:
        import traceback
        out["error"] = traceback.format_exc()
    finally:
        cleanup(wd)
    return out


def main(prop, tier, seed, replay_path=None):
    t0 = time.time()
    rnd = random.Random(seed + 77)
    verdict = Verdict(prop)
    spec, r, ncells = tlacases.export_cases("Density", {}, name="density")
    cells = spec["cells"]
    if replay_path:
        scen = json.loads(open(replay_path).read())["scenario"]
        todo = [scen["params"]["cell"]]
    elif tier == "quick":
        must = [c for c in cells if c["state"] == "untrained" and c["bounded"] == "off" and not c["affine"]]
        must = [c for c in must if c.get("scale", "unit") == "unit" and c.get("names", "sorted") == "sorted"]
        rest = [c for c in cells if c not in must]
        rnd.shuffle(rest)
        # stratified: one cell for every (names, scale, bounded transform) combination, then random ones
        strat, seen_k = [], set()
        for c in rest:
            k = (c.get("names"), c.get("scale"), c["bounded"])
            if k not in seen_k:
                seen_k.add(k); strat.append(c)
        todo = must + strat + [c for c in rest if c not in strat][:16]
    else:
        todo = cells
    args = [(i, c, spec["shift_log_prob"], spec["shift_sample_log_q"]) for i, c in enumerate(todo)]
    ctx = mp.get_context("fork")
    with ctx.Pool(min(12, os.cpu_count() or 4)) as pool:
        results = pool.map(run_cell, args, chunksize=1)
    errs = [x for x in results if "error" in x]
    if errs:
        raise MachineryError(f"{len(errs)} cells crashed, first:\n{errs[0]['error']}")
    n_pts = sum(x["n"] for x in results)
    for x in results:
        for sig, what in x["viol"]:
            verdict.violation(sig, f"{what} [cell {todo[x['i']]}]", replay={"builder": "density_cell", "params": {"cell": todo[x["i"]]}})
    rc, n_unlisted, known = verdict.finish()
    cov = {"states": int(max(1, r.distinct)), "transitions": int(max(1, r.generated)), "traces_validated_against_impl": len(todo),
           "samples": todo[:2], "evaluations": n_pts, "distinct_nontrivial": len({json.dumps(c, sort_keys=True) for c in todo}),
           "rule": "configuration cells (back-end x bounded transform x affine x dtype x untrained/trained/reloaded) enumerated by TLC from Density.tla; 256 draws per cell (points next to the clipping margin skipped) plus the fake-transform sign test; distinct = distinct cells",
           "exhaustive": tier != "quick", "tlc_cells": ncells,
           "laws_checked_by_tlc": ["SampleEvalAgree", "VariantsRejected", "JacobianIncluded"],
           "normalisation": "derived, not integrated: normalised base density (trusted) + bijection with exact log-Jacobian (C04) + the sign table replayed here; no quadrature is performed",
           "known_findings_hit": known}
    write_evidence(prop, tier, seed, time.time() - t0, cov, [STD_ASSUMPTIONS[2],
        "the base densities of zuko / flowjax are normalised (trusted); a base flow that is itself unnormalised would not be noticed",
        "tolerances are multiples of eps of the requested dtype, so a float64 flow computing part of its density in float32 is reported",
        "flows are tiny (hidden width 8) and trained for 2 epochs"], n_unlisted)
    return rc
