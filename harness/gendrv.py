"""Runs of the non-SMC samplers (importance, MiniPCN, Emcee) and of the flow back-ends,
projected to `calls_group` traces for SMCTrace.tla (call-site monitors, coherence,
counting, reproducibility)."""
from __future__ import annotations

import inspect

import numpy as np

import emcee as emcee_stub
import minipcn as minipcn_stub
import orng as orng_stub
import verifflow_mod
import smcdrv
from smcdrv import (IdTable, InjectedFault, LoggingRNG, Problem, Tracer, coherent, get_xp, ns_of,
                    to_np, width_of)

DEFAULT = dict(sampler="importance", ns="numpy", dtype=None, N=16, dims=2, width=0.5, center=1.0,
               seed=1, kseed=None, precond="none", recipe=False, split=1, flow_seed=11, bad_frac=0.0,
               rng_route="sample", mcmc_steps=3, scale=0.3, fault_k=None, fault_on="like")


def sampler_class(name):
    if name == "importance":
        from aspire.samplers.importance import ImportanceSampler as C
    elif name == "minipcn":
        from aspire.samplers.mcmc import MiniPCN as C
    elif name == "emcee":
        from aspire.samplers.mcmc import Emcee as C
    else:
        return smcdrv.sampler_class(name)
    return C


def run_calls(cfg, ids=None, role="single"):
    c = dict(DEFAULT)
    c.update(cfg)
    ids = ids or IdTable()
    xp = get_xp(c["ns"])
    prob = Problem(c["dims"], c["width"], c["center"])
    prob.recipe = bool(c["recipe"])
    tr = Tracer(prob, ids, fault_k=c["fault_k"], recipe=c["recipe"])
    tr.ret64 = bool(c.get("ret64"))
    flow = smcdrv.make_flow(dict(smcdrv.DEFAULT, **{k: c[k] for k in ("dims", "flow_seed", "dtype", "bad_frac")}), prob, xp)
    tr.flow = flow
    minipcn_stub.reset(); emcee_stub.reset()
    minipcn_stub.OBSERVER = tr.kernel_event
    emcee_stub.OBSERVER = tr.kernel_event
    minipcn_stub.SPLIT = c["split"]
    minipcn_stub.SCALE = emcee_stub.SCALE = c["scale"]
    minipcn_stub.MAX_SAMPLE_CALLS = emcee_stub.MAX_SAMPLE_CALLS = None
    verifflow_mod.OBSERVER = tr.flow_event
    orng_stub.CREATED.clear()
    # everything that is imported / initialised on first use is touched *before* the global generators are
    # seeded (a first import between seeding and the construction of a kernel that copies numpy's global state
    # would make the first run of a process differ from the later ones)
    if c.get("out_ns"):
        get_xp(c["out_ns"]).asarray([0.0])
    from aspire import Aspire as _warm      # noqa: F401
    np.random.seed((c["kseed"] if c["kseed"] is not None else c["seed"]) % (2**31))
    gen = np.random.default_rng(c["seed"])
    urng = LoggingRNG(gen, tr)
    if c["sampler"] == "convert":
        # Aspire.convert_to_samples(x): evaluates the prior and then the likelihood on user-supplied points
        from aspire import Aspire
        status, exc, result = "ok", "", None
        try:
            a = Aspire(log_likelihood=tr.log_likelihood, log_prior=tr.log_prior, dims=c["dims"],
                       parameters=[f"x_{i}" for i in range(c["dims"])], flow=flow, xp=xp, dtype=c["dtype"])
            verifflow_mod.OBSERVER = None
            x, lq = flow.sample_and_log_prob(c["N"])
            verifflow_mod.OBSERVER = tr.flow_event
            result = a.convert_to_samples(xp.asarray(to_np(x)), log_q=xp.asarray(to_np(lq)))
        except Exception as ex:
            status, exc = "raised", f"{type(ex).__name__}: {ex}"
        finally:
            minipcn_stub.OBSERVER = None; emcee_stub.OBSERVER = None; verifflow_mod.OBSERVER = None

        class _S:
            n_likelihood_evaluations = -1
        return {"cfg": c, "role": role, "status": status, "exc": exc, "tracer": tr, "sampler": _S(),
                "result": result, "urng": urng, "flow": flow, "prob": prob, "ids": ids,
                "orng_created": 0, "resumed": False}
    if c.get("via") == "aspire":
        # the same sampler through the top-level call: Aspire(...).sample_posterior(sampler=..., rng=...)
        from aspire import Aspire
        status, exc, result, a = "ok", "", None, None
        try:
            a = Aspire(log_likelihood=tr.log_likelihood, log_prior=tr.log_prior, dims=c["dims"],
                       parameters=[f"x_{i}" for i in range(c["dims"])], flow=flow, xp=xp, dtype=c["dtype"])
            kw = dict(n_samples=c["N"], sampler=c["sampler"],
                      preconditioning=None if c["precond"] == "default" else "none")
            if c.get("out_ns"):
                kw["xp"] = get_xp(c["out_ns"])        # the output-namespace option of the sampling call
            if c["sampler"] in ("minipcn", "emcee"):
                kw["rng"] = urng
            if c["sampler"] == "minipcn":
                kw["n_steps"] = c["mcmc_steps"]
            elif c["sampler"] == "emcee":
                kw["nsteps"] = c["mcmc_steps"]
            result = a.sample_posterior(**kw)
        except InjectedFault as ex:
            status, exc = "fault", str(ex)
        except Exception as ex:
            status, exc = "raised", f"{type(ex).__name__}: {ex}"
        finally:
            minipcn_stub.OBSERVER = None; emcee_stub.OBSERVER = None; verifflow_mod.OBSERVER = None
        smp = getattr(a, "_sampler", None)
        if smp is None:
            class smp:      # noqa
                n_likelihood_evaluations = -1
        return {"cfg": c, "role": role, "status": status, "exc": exc, "tracer": tr, "sampler": smp,
                "result": result, "urng": urng, "flow": flow, "prob": prob, "ids": ids,
                "orng_created": len(orng_stub.CREATED), "resumed": False}
    Cls = sampler_class(c["sampler"])
    sc = dict(smcdrv.DEFAULT); sc.update({k: c[k] for k in ("dims", "dtype", "precond")})
    sampler = Cls(log_likelihood=tr.log_likelihood, log_prior=tr.log_prior, dims=c["dims"],
                  prior_flow=flow, xp=xp, dtype=c["dtype"],
                  parameters=[f"x_{i}" for i in range(c["dims"])],
                  preconditioning_transform=smcdrv.make_precond(sc, xp))
    kw = {}
    sp = inspect.signature(sampler.sample).parameters
    if "rng" in sp and c["rng_route"] == "sample":
        kw["rng"] = urng
    if c["sampler"] == "minipcn":
        kw["n_steps"] = c["mcmc_steps"]
    elif c["sampler"] == "emcee":
        kw["nsteps"] = c["mcmc_steps"]
    status, exc, result = "ok", "", None
    try:
        result = sampler.sample(c["N"], **kw)
    except InjectedFault as ex:
        status, exc = "fault", str(ex)
    except Exception as ex:
        status, exc = "raised", f"{type(ex).__name__}: {ex}"
    finally:
        minipcn_stub.OBSERVER = None
        emcee_stub.OBSERVER = None
        verifflow_mod.OBSERVER = None
    return {"cfg": c, "role": role, "status": status, "exc": exc, "tracer": tr, "sampler": sampler,
            "result": result, "urng": urng, "flow": flow, "prob": prob, "ids": ids,
            "orng_created": len(orng_stub.CREATED), "resumed": False}


def project_calls_group(gid, runs):
    c = runs[0]["cfg"]
    w = 32 if c["dtype"] == "float32" else 64
    out_runs = []
    for r in runs:
        tr = r["tracer"]; urng = r["urng"]; ids = r["ids"]
        evs = []
        for e in tr.ev:
            t = e["t"]
            if t in ("prior", "like", "draw", "logq", "kend"):
                evs.append({k: v for k, v in e.items() if not k.startswith("_") and k != "file"})
            elif t == "kinit":
                evs.append({"t": "kinit", "rng_user": e["_rng"] is urng})
            elif t == "kbegin":
                evs.append({"t": "kbegin", "z": e["z"], "n": e["n"], "n_steps": e["n_steps"], "beta": -1,
                            "rng_user": e["_rng"] is urng})
            elif t == "choice":
                evs.append({"t": "choice", "n_src": e["n_src"], "size": e["size"], "prov": [], "sum_ok": True,
                            "rng_user": True})
        if r["status"] == "ok":
            res = r["result"]
            S = r["sampler"]
            if "nlike_total" in r:
                class _N:
                    n_likelihood_evaluations = r["nlike_total"]
                S = _N()
            pop = {"x": to_np(res.x), "ll": to_np(res.log_likelihood), "lp": to_np(res.log_prior),
                   "lq": to_np(res.log_q) if getattr(res, "log_q", None) is not None else None,
                   "width": width_of(res.x)}
            cc = coherent(pop, r["prob"], r["flow"], w)
            rid = {"x": ids.of(res.x), "ll": ids.of(res.log_likelihood), "lp": ids.of(res.log_prior),
                   "lq": ids.of(res.log_q) if pop["lq"] is not None else 0,
                   "logz": ids.of(np.array([float(to_np(res.log_evidence))])) if getattr(res, "log_evidence", None) is not None else 0,
                   "lw": ids.of(res.log_w) if getattr(res, "log_w", None) is not None else 0}
            want_w = w if c["dtype"] is not None else (64 if c["ns"] != "torch" else 32)
            exp_n = c["N"]
            size_ok = True
            if c["sampler"] in ("importance", "convert"):
                size_ok = len(res.x) == exp_n
            evs.append({"t": "result", "nlike": int(S.n_likelihood_evaluations),
                        "coh": [bool(x) for x in cc if x is not None], "size_ok": bool(size_ok),
                        "width_ok": bool(all(width_of(v) == want_w for v in (res.x, res.log_likelihood, res.log_prior, getattr(res, "log_q", None), getattr(res, "log_w", None)) if v is not None)
                                         and ns_of(res.x) == (c.get("out_ns") or c["ns"])),
                        "ids": rid})
        out_runs.append({"role": r["role"], "status": r["status"], "exc": r["exc"][:200], "ev": evs,
                         "resumed": False, "orng_created": int(r["orng_created"]),
                         "rng_calls": int(urng.ncalls),
                         "rcfg": {"every": 0, "ckpt_events": True, "adaptive": True, "n_steps": 0, "n_final": 0, "max_n_steps": 0,
                                  "has_path": False}})
    cfg = {"sampler": c["sampler"], "ns": c["ns"], "dtype": c["dtype"] or "default", "width": w,
           "N": c["N"], "adaptive": True, "n_steps": 0, "has_min_step": False, "max_n_steps": 0,
           "n_final": 0, "every": 0, "has_floor": False, "has_path": False, "precond": c["precond"],
           "rng_route": c["rng_route"] if c["sampler"] == "minipcn" else "none", "expect_cfg": False}
    return {"id": gid, "kind": "calls_group", "cfg": cfg, "zero": 0, "one": 1, "runs": out_runs}


# --------------------------------------------------------------------------
# Flow construction / training / sampling reproducibility (C20)
# --------------------------------------------------------------------------

def run_flow_pair_member(cfg, ids, role):
    """construct + (train) + sample a real flow; returns a run record with only a result event."""
    import random as _r
    c = dict(backend="zuko", dtype="float32", dims=2, seed=3, epochs=2, n=32, seed_type="int")
    c.update(cfg)
    # a seed is a seed whichever integer type it has (e.g. taken from rng.integers or np.arange)
    seed_val = {"int": int, "np.int64": np.int64, "np.uint32": np.uint32}[c["seed_type"]](c["seed"])
    rng = np.random.default_rng(c["seed"] + 100)
    data = rng.normal(0.5, 1.0, size=(96, c["dims"]))
    status, exc = "ok", ""
    rid = {}
    try:
        if c.get("load_from"):
            # the proposal is read from a file written earlier (its seed is part of what was stored): two
            # loads followed by the same draws give the same samples whatever the process did in between
            import h5py
            if c["backend"] == "zuko":
                import torch
                torch.set_num_threads(1)
                from aspire.flows.torch.flows import ZukoFlow as FC
            else:
                get_xp("jax")
                from aspire.flows.jax.flows import FlowJax as FC
            with h5py.File(c["load_from"], "r") as f:
                fl = FC.load(f, "flow")
            x, lq = fl.sample_and_log_prob(c["n"])
            lp = fl.log_prob(data[:8])

            class hist:      # noqa
                training_loss = [0.0]
        elif c["backend"] == "zuko":
            import torch
            torch.set_num_threads(1)
            from aspire.flows.torch.flows import ZukoFlow
            fl = ZukoFlow(c["dims"], seed=seed_val, dtype=c["dtype"], hidden_features=[8, 8])
            hist = fl.fit(data, n_epochs=c["epochs"], batch_size=32)
            if c.get("save_to"):
                import h5py
                with h5py.File(c["save_to"], "w") as f:
                    fl.save(f, "flow")
            x, lq = fl.sample_and_log_prob(c["n"])
            lp = fl.log_prob(data[:8])
        else:
            import jax
            get_xp("jax")
            from aspire.flows.jax.flows import FlowJax
            fl = FlowJax(c["dims"], key=jax.random.key(int(seed_val)), dtype=c["dtype"], nn_width=8, nn_depth=1)
            hist = fl.fit(data, max_epochs=c["epochs"], batch_size=32, show_progress=False)
            if c.get("save_to"):
                import h5py
                with h5py.File(c["save_to"], "w") as f:
                    fl.save(f, "flow")
            x, lq = fl.sample_and_log_prob(c["n"])
            lp = fl.log_prob(data[:8])
        rid = {"x": ids.of(x), "lq": ids.of(lq), "lp": ids.of(to_np(lp)),
               "loss": ids.of(np.asarray([float(v) for v in hist.training_loss])),
               "ll": 0, "logz": 0, "lw": 0}
    except Exception as ex:
        status, exc = "raised", f"{type(ex).__name__}: {ex}"
    evs = []
    if status == "ok":
        evs.append({"t": "result", "nlike": -1, "coh": [], "size_ok": True, "width_ok": True, "ids": rid})
    return {"role": role, "status": status, "exc": exc[:200], "ev": evs, "resumed": False,
            "orng_created": 0, "rng_calls": 0,
            "rcfg": {"every": 0, "ckpt_events": True, "adaptive": True, "n_steps": 0, "n_final": 0, "max_n_steps": 0, "has_path": False}}


def flow_pair_group(gid, cfg):
    import random as _r
    ids = IdTable()
    wd = None
    if cfg.get("from_file"):
        from common import workdir
        wd = workdir("flowfile")
        path = str(wd / "flow.h5")
        run_flow_pair_member(dict(cfg, save_to=path), IdTable(), "single")      # writes the file
        np.random.seed(1234); _r.seed(5)
        try:
            import torch
            torch.manual_seed(4321)
        except Exception:
            pass
        cfg = dict(cfg, load_from=path)
    try:
        return _flow_pair_group(gid, cfg, ids)
    finally:
        if wd is not None:
            from common import cleanup
            cleanup(wd)


def _flow_pair_group(gid, cfg, ids):
    import random as _r
    r1 = run_flow_pair_member(cfg, ids, "reference")
    # disturb every global generator before the second run
    np.random.seed(424242); _r.seed(77)
    try:
        import torch
        torch.manual_seed(987)
    except Exception:
        pass
    r2 = run_flow_pair_member(cfg, ids, "repeat")
    c = {"sampler": "flow:" + cfg.get("backend", "zuko"), "ns": "numpy", "dtype": cfg.get("dtype", "float32"),
         "width": 32, "N": 0, "adaptive": True, "n_steps": 0, "has_min_step": False, "max_n_steps": 0,
         "n_final": 0, "every": 0, "has_floor": False, "has_path": False, "precond": "none",
         "rng_route": "none", "expect_cfg": False}
    return {"id": gid, "kind": "calls_group", "cfg": c, "zero": 0, "one": 1, "runs": [r1, r2]}


# --------------------------------------------------------------------------
# sampling inside / after the multiprocessing-pool context (C10, C17)
# --------------------------------------------------------------------------

class _FakePool:
    def map(self, fn, it):
        return list(map(fn, it))

    def close(self):
        pass

    def join(self):
        pass


def run_pool_sequence(cfg, ids=None):
    """Aspire.enable_pool(pool, parallelize_prior=p): importance sampling inside the context, then again
    after leaving it, on the same Aspire object.  Returns one run record per sampling call."""
    from aspire import Aspire
    c = dict(DEFAULT)
    c.update(cfg)
    ids = ids or IdTable()
    xp = get_xp(c["ns"])
    prob = Problem(c["dims"], c["width"], c["center"])
    prob.recipe = bool(c["recipe"])
    tr = Tracer(prob, ids, recipe=c["recipe"])
    flow = smcdrv.make_flow(dict(smcdrv.DEFAULT, **{k: c[k] for k in ("dims", "flow_seed", "dtype", "bad_frac")}), prob, xp)
    tr.flow = flow

    def ll(samples, map_fn=map):
        return tr.log_likelihood(samples)

    def lp(samples, map_fn=map):
        return tr.log_prior(samples)
    a = Aspire(log_likelihood=ll, log_prior=lp, dims=c["dims"], parameters=[f"x_{i}" for i in range(c["dims"])],
               flow=flow, xp=xp, dtype=c["dtype"])
    runs = []

    def one(role):
        tr.ev = []; tr.k = tr.kp = 0
        verifflow_mod.OBSERVER = tr.flow_event
        status, exc, res = "ok", "", None
        try:
            res = a.sample_posterior(n_samples=c["N"])
        except Exception as ex:
            status, exc = "raised", f"{type(ex).__name__}: {ex}"
        finally:
            verifflow_mod.OBSERVER = None
        runs.append({"cfg": dict(c, sampler="importance"), "role": role, "status": status, "exc": exc,
                     "tracer": smcdrv._freeze_tracer(tr), "sampler": getattr(a, "_sampler", None), "result": res,
                     "urng": LoggingRNG(np.random.default_rng(1), tr), "flow": flow, "prob": prob, "ids": ids,
                     "orng_created": 0, "resumed": False,
                     "nlike_total": int(getattr(getattr(a, "_sampler", None), "n_likelihood_evaluations", -1))})
    with a.enable_pool(_FakePool(), close_pool=c.get("close_pool", False), parallelize_prior=c.get("par_prior", False)):
        one("single")
    one("single")
    if c.get("second_context"):
        with a.enable_pool(_FakePool(), close_pool=True, parallelize_prior=not c.get("par_prior", False)):
            one("single")
        one("single")
    return runs
