"""C13 (spec -> code): every artefact case of Persist.tla is written to a real HDF5 file and
read back; the reloaded object must be observationally equal (per the specification's
normalisation table / observables)."""
from __future__ import annotations

import json
import multiprocessing as mp
import os
import random
import time

import numpy as np

import common
import tlacases
from common import MachineryError, Verdict, cleanup, workdir, write_evidence, STD_ASSUMPTIONS


def to_py(t):
    k = t["t"]
    if k == "none":
        return None
    if k == "emptydict":
        return {}
    if k == "bool":
        return bool(t["v"])
    if k == "int":
        return int(t["v"])
    if k == "float":
        return t["v"] / 8.0
    if k == "str":
        return t["v"]
    if k == "strlist":
        return list(t["v"])
    if k == "strtuple":
        return tuple(t["v"])
    if k == "intlist":
        return [int(x) for x in t["v"]]
    if k == "npint":
        return np.int64(t["v"])
    if k == "npfloat":
        return np.float64(t["v"] / 8.0)
    if k == "nparray":
        return np.asarray(t["v"], dtype=np.float64) if False else np.asarray(t["v"])
    if k == "nparray2d":
        return np.asarray(t["v"], dtype=np.float64).reshape(2, 2)
    if k == "dict":
        return {t["k"]: to_py(t["v"])}
    if k == "dict2":
        return {t["k"]: to_py(t["v"]), "other": to_py(t["w"])}
    raise MachineryError(k)


def same(a, b):
    """strict observational equality of loaded value a with expected value b"""
    if isinstance(b, dict):
        return isinstance(a, dict) and set(a) == set(b) and all(same(a[k], b[k]) for k in b)
    if isinstance(b, np.ndarray):
        return isinstance(a, np.ndarray) and a.shape == b.shape and np.array_equal(a, b)
    if isinstance(b, (list, tuple)):
        return isinstance(a, (list, tuple)) and len(a) == len(b) and all(same(x, y) for x, y in zip(a, b))
    if b is None:
        return a is None
    if isinstance(b, bool):
        return isinstance(a, (bool, np.bool_)) and bool(a) == b
    if isinstance(b, (int, np.integer)):
        return isinstance(a, (int, np.integer)) and not isinstance(a, (bool, np.bool_)) and int(a) == int(b)
    if isinstance(b, (float, np.floating)):
        return isinstance(a, (float, np.floating)) and float(a) == float(b)
    return type(a) is type(b) and a == b


def save_paths(c, path):
    return ([path + ".first"] if int(c.get("saves", 1)) == 2 else []) + [path]


def ll_fn(s):
    import smcdrv
    return s.xp.asarray(-0.5 * ((smcdrv.to_np(s.x) - 0.2) ** 2).sum(-1), dtype=s.dtype)


def lp_fn(s):
    import smcdrv
    return s.xp.asarray(-0.1 * (smcdrv.to_np(s.x) ** 2).sum(-1), dtype=s.dtype)


def run_case(arg):
    ci, c = arg
    import h5py
    import smcdrv
    out = {"i": ci, "viol": []}
    wd = workdir("persist")
    path = str(wd / "a.h5")
    try:
        kind = c["kind"]
        if kind == "config":
            from aspire.utils import load_from_h5_file, recursively_save_to_h5_file
            v, e = to_py(c["value"]), to_py(c["expect"])
            tag = f"config|{c['where']}|{c['value']['t']}" + ("/" + c["value"]["v"]["t"] if c["value"]["t"] in ("dict", "dict2") else "")
            try:
                if c["where"] == "top":
                    with h5py.File(path, "w") as f:
                        recursively_save_to_h5_file(f, "cfg", {"opt": v, "z": 1})
                    with h5py.File(path, "r") as f:
                        got = load_from_h5_file(f, "cfg")
                    got_v = got.get("opt", "<missing>")
                else:
                    from aspire import Aspire
                    a = Aspire(log_likelihood=ll_fn, log_prior=lp_fn, dims=2, parameters=["a", "b"],
                               flow_backend="verifflow", opt=v)
                    with h5py.File(path, "w") as f:
                        a.save_config(f, include_sampler_config=False)
                    with h5py.File(path, "r") as f:
                        got = load_from_h5_file(f, "aspire_config")
                    got_v = got.get("flow_kwargs", {}).get("opt", "<missing>") if isinstance(got.get("flow_kwargs"), dict) else "<flow_kwargs lost>"
            except Exception as ex:
                out["viol"].append((f"RoundTripEqual|{tag}|{type(ex).__name__}", f"saving/loading configuration value {v!r} raised {type(ex).__name__}: {str(ex)[:120]}"))
                return out
            if not same(got_v, e):
                out["viol"].append((f"RoundTripEqual|{tag}", f"configuration value {v!r} reloads as {got_v!r} (expected {e!r})"))
        elif kind == "samples":
            from aspire.samples import BaseSamples, Samples, SMCSamples
            from aspire.utils import load_from_h5_file, recursively_save_to_h5_file
            xp = smcdrv.get_xp(c["ns"])
            n = int(c.get("rows", 5))
            i = np.arange(1, n + 1, dtype=np.float64)
            x = np.stack([i * 1.25, i + 0.5, -i], axis=1)
            kw = {}
            if "ll" in c["fields"]:
                kw["log_likelihood"] = 10.0 * i
            if "lp" in c["fields"]:
                kw["log_prior"] = -i
            if "lq" in c["fields"]:
                kw["log_q"] = 0.25 * i
            dt = None if c["dtype"] == "default" else c["dtype"]
            C = {"Base": BaseSamples, "Samples": Samples, "SMC": SMCSamples}[c["cls"]]
            if c["cls"] == "SMC":
                kw.update(beta=0.375, log_evidence=-3.25, log_evidence_error=0.125)
            obj = C(x, xp=xp, dtype=dt, parameters=["q", "m2", "m1"], **kw)      # deliberately not in sorted order
            tag = f"samples|{c['cls']}|{c['via']}|{c['layout']}|{c['ns']}|rows={n}"
            try:
                if c["via"] == "save":
                    for _p in save_paths(c, path):       # saves = 2: the same object is saved twice; the second file is read back
                        with h5py.File(_p, "w") as f:
                            obj.save(f, path="s", flat=(c["layout"] == "flat"))
                    with h5py.File(path, "r") as f:
                        back = C.load(f, path="s")
                else:
                    if c["layout"] == "nested":
                        return out      # the history encoding has a single layout
                    with h5py.File(path, "w") as f:
                        recursively_save_to_h5_file(f, "h", {"pop": obj, "n": 3})
                    with h5py.File(path, "r") as f:
                        back = load_from_h5_file(f, "h")["pop"]
            except Exception as ex:
                out["viol"].append((f"RoundTripEqual|{tag}|{type(ex).__name__}", f"{c['cls']} [{c['ns']},{c['dtype']},{c['fields']}] {c['via']}/{c['layout']} raised {type(ex).__name__}: {str(ex)[:140]}"))
                return out
            probs = compare_samples(obj, back)
            for p in probs:
                out["viol"].append((f"RoundTripEqual|{tag}|{p.split(':')[0]}", f"{c['cls']} [{c['ns']},{c['dtype']},{c['fields']}] via {c['via']}/{c['layout']}: {p}"))
        elif kind == "history":
            from aspire.history import FlowHistory, SMCHistory
            tag = f"history|{c['cls']}|{c['npops']}|{c['ns']}|{'real' if c['real'] else 'synthetic'}"
            try:
                if c["cls"] == "FlowHistory":
                    if c["ns"] != "numpy" or c["real"]:
                        return out
                    m = c["npops"]         # number of epochs
                    h = FlowHistory(training_loss=[1.5 - t / 8.0 for t in range(m)], validation_loss=[2.0 - t / 16.0 for t in range(m)])
                    for _p in save_paths(c, path):       # saves = 2: the same object is saved twice; the second file is read back
                        with h5py.File(_p, "w") as f:
                            h.save(f)
                    with h5py.File(path, "r") as f:
                        b = FlowHistory.load(f)
                    if not all(isinstance(v, (list, tuple, np.ndarray)) and np.ndim(v) == 1 for v in (b.training_loss, b.validation_loss)):
                        out["viol"].append((f"RoundTripEqual|history|FlowHistory|series-shape", f"FlowHistory losses of {m} epoch(s) reload as {b.training_loss!r} / {b.validation_loss!r}, not sequences"))
                    elif list(map(float, b.training_loss)) != list(map(float, h.training_loss)) or list(map(float, b.validation_loss)) != list(map(float, h.validation_loss)):
                        out["viol"].append((f"RoundTripEqual|{tag}", f"FlowHistory losses {h.training_loss} reload as {b.training_loss!r}"))
                else:
                    if c["real"] and c["npops"] > 23:
                        return out
                    if c["real"]:
                        r = smcdrv.run_smc(dict(N=6, ns=c["ns"], adaptive=False, n_steps=max(1, c["npops"]), seed=3,
                                                dtype="float64" if c["ns"] != "torch" else "float32"))
                        if r["status"] != "ok":
                            raise MachineryError("real run failed: " + r["exc"])
                        h = r["sampler"].history
                    else:
                        from aspire.samples import SMCSamples
                        xp = smcdrv.get_xp(c["ns"])
                        h = SMCHistory()
                        for t in range(c["npops"]):
                            i = np.arange(1, 5, dtype=np.float64) + t
                            h.sample_history.append(SMCSamples(np.stack([i, -i], axis=1), log_likelihood=2 * i, log_prior=-i, log_q=0.5 * i, beta=0.25 * t, xp=xp))
                        m = c["npops"]
                        h.beta = [(t + 1) / m for t in range(m)]
                        h.ess = [3.5 - t / 64.0 for t in range(m)]
                        h.log_norm_ratio = [-1.5 + 0.25 * t for t in range(m)]
                        h.log_norm_ratio_var = [0.125 * (t + 1) for t in range(m)]
                        h.mcmc_acceptance = [0.5 / (t + 1) for t in range(max(0, m - 1))]
                    for _p in save_paths(c, path):       # saves = 2: the same object is saved twice; the second file is read back
                        with h5py.File(_p, "w") as f:
                            h.save(f)
                    with h5py.File(path, "r") as f:
                        b = SMCHistory.load(f)
                    for s in ("beta", "ess", "ess_target", "eff_target", "log_norm_ratio", "log_norm_ratio_var", "mcmc_acceptance"):
                        u = [float(smcdrv.to_np(v)) for v in getattr(h, s)]
                        raw = getattr(b, s)
                        if not isinstance(raw, (list, tuple, np.ndarray)) or np.ndim(raw) != 1:
                            out["viol"].append((f"RoundTripEqual|history|SMCHistory|series-shape|{c['ns']}", f"series {s} of length {len(u)} reloads as {type(raw).__name__} {raw!r}, not a sequence"))
                            continue
                        w = [float(v) for v in np.asarray(raw, dtype=np.float64)]
                        if u != w:
                            out["viol"].append((f"RoundTripEqual|history|SMCHistory|series|{c['ns']}", f"series {s} {u} reloads as {w}"))
                    if len(b.sample_history) != len(h.sample_history):
                        out["viol"].append((f"RoundTripEqual|history|SMCHistory|npops|{c['ns']}", f"{len(h.sample_history)} stored populations reload as {len(b.sample_history)}"))
                    else:
                        for t, (p, q) in enumerate(zip(h.sample_history, b.sample_history)):
                            for pr in compare_samples(p, q):
                                out["viol"].append((f"RoundTripEqual|history|SMCHistory|population|{c['ns']}|{pr.split(':')[0]}", f"stored population {t}: {pr}"))
            except MachineryError:
                raise
            except Exception as ex:
                out["viol"].append((f"RoundTripEqual|{tag}|{type(ex).__name__}", f"{c['cls']} with {c['npops']} populations ({c['ns']}) raised {type(ex).__name__}: {str(ex)[:140]}"))
        elif kind == "transform":
            from aspire import transforms as T
            xp = smcdrv.get_xp(c["ns"])
            dt = c["dtype"]
            fdt = np.float32 if dt == "float32" else np.float64
            params = ["a", "b"]
            bounds = {"a": [-1.0, 3.0], "b": [0.5, 4.0]}
            rng = np.random.default_rng(5)
            data = np.stack([rng.uniform(-0.9, 2.9, 16), rng.uniform(0.6, 3.9, 16)], axis=1).astype(fdt)
            # eps: the clipping margin the object was built with is part of the map (points closer to a bound
            # than the margin are where it shows): rows 0-3 sit at 1e-4 of the width from the bounds
            ekw = {} if c.get("eps", "default") == "default" else {"eps": 1e-2}
            data[0, 0] = fdt(-1.0 + 4.0 * 1e-4); data[1, 0] = fdt(3.0 - 4.0 * 1e-4)
            data[2, 1] = fdt(0.5 + 3.5 * 1e-4); data[3, 1] = fdt(4.0 - 3.5 * 1e-4)
            mk = {
                "Composite": lambda: T.CompositeTransform(parameters=params, prior_bounds=bounds, bounded_to_unbounded=False, affine_transform=False, **ekw, xp=xp, dtype=dt),
                "CompositeFull": lambda: T.CompositeTransform(parameters=params, prior_bounds=bounds, periodic_parameters=["a"], bounded_to_unbounded=True, bounded_transform="probit", affine_transform=True, **ekw, xp=xp, dtype=dt),
                "FlowTransform": lambda: T.FlowTransform(parameters=params, prior_bounds=bounds, bounded_to_unbounded=True, bounded_transform="logit", affine_transform=True, **ekw, xp=xp, dtype=dt),
                "Affine": lambda: T.AffineTransform(xp=xp, dtype=dt),
                "Logit": lambda: T.LogitTransform(lower=[-1.0, 0.5], upper=[3.0, 4.0], **ekw, xp=xp, dtype=dt),
                "Probit": lambda: T.ProbitTransform(lower=[-1.0, 0.5], upper=[3.0, 4.0], **ekw, xp=xp, dtype=dt),
                "Periodic": lambda: T.PeriodicTransform(lower=[-1.0, 0.5], upper=[3.0, 4.0], xp=xp, dtype=dt),
                "Identity": lambda: T.IdentityTransform(xp=xp, dtype=dt),
            }[c["cls"]]
            tag = f"transform|{c['cls']}|{'fitted' if c['fitted'] else 'unfitted'}|{c['ns']}/{dt}|eps={c.get('eps', 'default')}"
            try:
                tr = mk()
                needs_fit = c["cls"] in ("CompositeFull", "FlowTransform", "Affine")
                if c["fitted"]:
                    tr.fit(xp.asarray(data.copy()))
                elif needs_fit:
                    return out        # an unfitted whitening transform has no state to save
                for _p in save_paths(c, path):       # saves = 2: the same object is saved twice; the second file is read back
                    with h5py.File(_p, "w") as f:
                        tr.save(f, "t")
                with h5py.File(path, "r") as f:
                    back = T.BaseTransform.load(f, "t")
                if type(back) is not type(tr):
                    out["viol"].append((f"RoundTripEqual|{tag}|class", f"reloaded as {type(back).__name__}"))
                    return out
                y0, j0 = tr.forward(xp.asarray(data.copy()))
                y1, j1 = back.forward(xp.asarray(data.copy()))
                x0, k0 = tr.inverse(y0)
                x1, k1 = back.inverse(y0)
                for nm, u, w in (("forward", y0, y1), ("forward log-Jacobian", j0, j1), ("inverse", x0, x1), ("inverse log-Jacobian", k0, k1)):
                    un, wn = np.asarray(smcdrv.to_np(u)), np.asarray(smcdrv.to_np(w))
                    if un.shape != wn.shape or not np.array_equal(un.astype(np.float64), wn.astype(np.float64)) or smcdrv.width_of(u) != smcdrv.width_of(w) or smcdrv.ns_of(u) != smcdrv.ns_of(w):
                        out["viol"].append((f"RoundTripEqual|{tag}|{nm.split(' ')[0]}", f"reloaded transform gives a different {nm} (or another namespace/width)"))
            except Exception as ex:
                out["viol"].append((f"RoundTripEqual|{tag}|{type(ex).__name__}", f"{c['cls']} save/load raised {type(ex).__name__}: {str(ex)[:140]}"))
        elif kind == "flow":
            out["viol"] += flow_case(c, path)
        elif kind == "resume":
            out["viol"] += resume_case(c, path)
    except MachineryError:
        raise
    except Exception:
        import traceback
        out["error"] = traceback.format_exc()
    finally:
        cleanup(wd)
    return out


def compare_samples(a, b):
    import smcdrv
    probs = []
    if type(a) is not type(b):
        return [f"class: {type(b).__name__} instead of {type(a).__name__}"]
    if smcdrv.ns_of(a.x) != smcdrv.ns_of(b.x):
        probs.append(f"namespace: {smcdrv.ns_of(b.x)} instead of {smcdrv.ns_of(a.x)}")
    if smcdrv.width_of(a.x) != smcdrv.width_of(b.x):
        probs.append(f"dtype: width {smcdrv.width_of(b.x)} instead of {smcdrv.width_of(a.x)}")
    if list(a.parameters) != list(b.parameters):
        probs.append(f"parameters: {b.parameters} instead of {a.parameters}")
    for f in ("x", "log_likelihood", "log_prior", "log_q"):
        u, w = getattr(a, f), getattr(b, f)
        if (u is None) != (w is None):
            probs.append(f"fields: {f} {'lost' if w is None else 'appeared'}")
        elif u is not None:
            un, wn = np.asarray(smcdrv.to_np(u), dtype=np.float64), np.asarray(smcdrv.to_np(w), dtype=np.float64)
            if un.shape != wn.shape or not np.array_equal(un, wn):
                probs.append(f"values: {f} differs")
    if hasattr(a, "beta"):
        if (a.beta is None) != (b.beta is None) or (a.beta is not None and float(a.beta) != float(b.beta)):
            probs.append(f"beta: {b.beta!r} instead of {a.beta!r}")
    if hasattr(a, "log_evidence"):
        for f in ("log_evidence", "log_evidence_error"):
            u, w = getattr(a, f), getattr(b, f)
            if (u is None) != (w is None) or (u is not None and abs(float(smcdrv.to_np(u)) - float(smcdrv.to_np(w))) > 1e-6 * (1 + abs(float(smcdrv.to_np(u))))):
                probs.append(f"evidence: {f} {w!r} instead of {u!r}")
    return probs


def make_flow(backend, dtype, kwargs, dims=2, transform=False):
    import smcdrv
    tkw = {}
    if transform:
        from aspire.transforms import FlowTransform
        xp_ = (__import__("array_api_compat.torch", fromlist=["x"]) if backend == "zuko" else smcdrv.get_xp("jax"))
        tkw["data_transform"] = FlowTransform(parameters=["a", "b"], prior_bounds={"a": [-6.0, 7.0], "b": [-5.0, 6.0]},
                                              bounded_to_unbounded=True, bounded_transform="logit", affine_transform=True,
                                              xp=xp_, dtype=dtype)
    if backend == "zuko":
        import torch
        torch.set_num_threads(1)
        from aspire.flows.torch.flows import ZukoFlow
        kw = {"hidden_features": [8, 8]} if kwargs else {}
        return ZukoFlow(dims, seed=4, dtype=dtype, **kw, **tkw)
    import jax
    smcdrv.get_xp("jax")
    from aspire.flows.jax.flows import FlowJax
    kw = {"nn_width": 8, "nn_depth": 1} if kwargs else {}
    return FlowJax(dims, key=jax.random.key(4), dtype=dtype, **kw, **tkw)


def flow_case(c, path):
    import h5py
    import smcdrv
    viol = []
    tag = f"flow|{c['backend']}|{'trained' if c['trained'] else 'untrained'}|{c['dtype']}|{'kwargs' if c['kwargs'] else 'defaults'}|{'transform' if c.get('transform') else 'plain'}|saves={c.get('saves', 1)}|dims={c.get('dims', 2)}"
    try:
        dims = int(c.get("dims", 2))
        fl = make_flow(c["backend"], c["dtype"], c["kwargs"], dims=dims, transform=bool(c.get("transform")))
        rng = np.random.default_rng(2)
        data = rng.normal(0.4, 1.1, size=(64, dims))
        if c.get("transform") and not c["trained"]:
            fl.fit_data_transform(fl.xp.asarray(np.asarray(data, dtype=c["dtype"])) if hasattr(fl, "xp") else data)
        if c["trained"]:
            if c["backend"] == "zuko":
                fl.fit(data, n_epochs=2, batch_size=32)
            else:
                fl.fit(data, max_epochs=2, batch_size=32, show_progress=False)
        for _p in save_paths(c, path):       # saves = 2: the same object is saved twice; the second file is read back
            with h5py.File(_p, "w") as f:
                fl.save(f, "flow")
        with h5py.File(path, "r") as f:
            back = type(fl).load(f, "flow")
        probe = data[:10]
        a = np.asarray(smcdrv.to_np(fl.log_prob(probe)), dtype=np.float64)
        b = np.asarray(smcdrv.to_np(back.log_prob(probe)), dtype=np.float64)
        eps = 2.0 ** -23 if c["dtype"] == "float32" else 2.0 ** -52
        if a.shape != b.shape or not np.all(np.abs(a - b) <= 64 * eps * np.maximum(1.0, np.abs(a))):
            viol.append((f"RoundTripEqual|{tag}|density", f"reloaded {c['backend']} flow gives another log_prob (max diff {np.max(np.abs(a-b)) if a.shape == b.shape else 'shape'})"))
        if str(getattr(back, "dtype", "")) != str(getattr(fl, "dtype", "")):
            viol.append((f"RoundTripEqual|{tag}|dtype", f"reloaded flow has dtype {back.dtype} instead of {fl.dtype}"))
    except Exception as ex:
        viol.append((f"RoundTripEqual|{tag}|{type(ex).__name__}", f"{c['backend']} flow save/load raised {type(ex).__name__}: {str(ex)[:160]}"))
    return viol


def resume_case(c, path):
    import smcdrv
    from aspire import Aspire
    from aspire.samples import Samples
    viol = []
    tag = f"resume|{c['backend']}|{c['dtype']}|{'kwargs' if c['kwargs'] else 'defaults'}|{'periodic' if c['periodic'] else 'plain'}|{c['xp']}"
    try:
        xp = smcdrv.get_xp(c["xp"])
        dt = None if c["dtype"] == "default" else c["dtype"]
        params = ["a", "b"]
        kw = {}
        if c["kwargs"]:
            kw = {"verifflow": {"seed": 77}, "zuko": {"hidden_features": [8, 8]}, "flowjax": {"nn_width": 8, "nn_depth": 1}}[c["backend"]]
        a = Aspire(log_likelihood=ll_fn, log_prior=lp_fn, dims=2, parameters=params,
                   periodic_parameters=["a"] if c["periodic"] else None,
                   prior_bounds={"a": [-4.0, 4.0], "b": [-5.0, 6.0]}, bounded_to_unbounded=True, bounded_transform="logit",
                   flow_backend=c["backend"], eps=1e-5, xp=xp, dtype=dt, **kw)
        rng = np.random.default_rng(1)
        data = rng.uniform(-2, 2, size=(48, 2))
        fitkw = {} if c["backend"] == "verifflow" else ({"n_epochs": 1, "batch_size": 24} if c["backend"] == "zuko" else {"max_epochs": 1, "batch_size": 24, "show_progress": False})
        a.fit(Samples(data, xp=xp, dtype=dt), checkpoint_path=path, **fitkw)
        b = Aspire.resume_from_file(path, log_likelihood=ll_fn, log_prior=lp_fn)
        ca, cb = a.config_dict(include_sampler_config=False), b.config_dict(include_sampler_config=False)
        ca["dtype"], cb["dtype"] = (str(a.dtype) if a.dtype is not None else None), (str(b.dtype) if b.dtype is not None else None)
        for k in ("dims", "parameters", "periodic_parameters", "prior_bounds", "bounded_to_unbounded", "bounded_transform",
                  "flow_matching", "flow_backend", "flow_kwargs", "eps", "xp", "dtype"):
            u, w = ca.get(k), cb.get(k)
            if k == "flow_kwargs":
                u = {q: v for q, v in (u or {}).items() if q != "parameters"}
                w = {q: v for q, v in (w or {}).items() if q != "parameters"}
            if not _cfg_same(u, w):
                viol.append((f"RoundTripEqual|resume|{k}|{c['backend']}", f"setting {k}: rebuilt instance has {w!r}, the writer had {u!r} ({tag})"))
        # the rebuilt proposal is the same density
        probe = data[:8]
        la = np.asarray(smcdrv.to_np(a.flow.log_prob(probe)), dtype=np.float64)
        lb = np.asarray(smcdrv.to_np(b.flow.log_prob(probe)), dtype=np.float64)
        if la.shape != lb.shape or not np.allclose(la, lb, rtol=1e-4, atol=1e-4):
            viol.append((f"RoundTripEqual|resume|density|{c['backend']}", f"rebuilt proposal has another density ({tag})"))
    except Exception as ex:
        viol.append((f"RoundTripEqual|resume|{c['backend']}|{type(ex).__name__}", f"fit(checkpoint_path) + resume_from_file raised {type(ex).__name__}: {str(ex)[:160]} ({tag})"))
    return viol


def _cfg_same(u, w):
    if isinstance(u, dict) and isinstance(w, dict):
        return set(u) == set(w) and all(_cfg_same(u[k], w[k]) for k in u)
    if isinstance(u, (list, tuple, np.ndarray)) and isinstance(w, (list, tuple, np.ndarray)):
        ua, wa = np.asarray(u), np.asarray(w)
        return ua.shape == wa.shape and bool(np.all(ua == wa))
    if u is None or w is None:
        return u is None and w is None
    return u == w


def main(prop, tier, seed, replay_path=None):
    t0 = time.time()
    rnd = random.Random(seed + 41)
    verdict = Verdict(prop)
    consts = {"MaxDepth": "= 2", "Keys": '= {"alpha", "beta_1"}'}
    spec, r, ncases = tlacases.export_cases("Persist", consts, name="persist", timeout=3000)
    cases = spec["cases"]
    if replay_path:
        scen = json.loads(open(replay_path).read())["scenario"]
        todo = [(0, scen["params"]["case"])]
    else:
        idx = list(range(len(cases)))
        if tier == "quick":
            light = [i for i in idx if cases[i]["kind"] in ("config", "samples", "history", "transform")]
            heavy = [i for i in idx if cases[i]["kind"] in ("flow", "resume")]
            rnd.shuffle(light); rnd.shuffle(heavy)
            # flows: one case for every (back-end, data transform, number of saves), then random ones
            fl_seen, fl_strat = set(), []
            for i in heavy:
                cc = cases[i]
                if cc["kind"] == "flow" and (cc["backend"], cc["transform"], cc["saves"], cc["dims"]) not in fl_seen:
                    fl_seen.add((cc["backend"], cc["transform"], cc["saves"], cc["dims"])); fl_strat.append(i)
            heavy_keep = fl_strat + [i for i in heavy if cases[i]["kind"] == "flow" and i not in fl_strat][:4] + \
                         [i for i in heavy if cases[i]["kind"] == "resume" and cases[i]["backend"] == "verifflow"][:24] + \
                         [i for i in heavy if cases[i]["kind"] == "resume" and cases[i]["backend"] != "verifflow"][:8]
            # transforms: every (class, eps, saves) combination in its fitted state at least once
            tr_seen, tr_strat = set(), []
            for i in light:
                cc = cases[i]
                if cc["kind"] == "transform" and cc["fitted"] and (cc["cls"], cc["eps"], cc["saves"]) not in tr_seen:
                    tr_seen.add((cc["cls"], cc["eps"], cc["saves"])); tr_strat.append(i)
            idx = tr_strat + [i for i in light if i not in set(tr_strat)][:1100] + heavy_keep
        todo = [(i, cases[i]) for i in idx]
    ctx = mp.get_context("fork")
    with ctx.Pool(min(16, os.cpu_count() or 4)) as pool:
        results = pool.map(run_case, todo, chunksize=1)
    errs = [x for x in results if "error" in x]
    if errs:
        raise MachineryError(f"{len(errs)} cases crashed, first:\n{errs[0]['error']}")
    byi = dict(todo)
    nv = 0
    for x in results:
        for sig, what in x["viol"]:
            nv += 1
            verdict.violation(sig, what, replay={"builder": "persist_case", "params": {"case": byi[x["i"]]}})
    # binding self-test
    if same(np.asarray([1, 2]), [1, 2]) or same(3.0, 3) or not same({"a": None}, {"a": None}):
        raise MachineryError("C13 self-test: equality relation too loose")
    rc, n_unlisted, known = verdict.finish()
    import collections
    kinds = collections.Counter(c["kind"] for _, c in todo)
    distinct = {json.dumps({k: v for k, v in c.items() if k not in ("expect",)}, sort_keys=True, default=str) for _, c in todo}
    cov = {"states": int(max(1, r.distinct)), "transitions": int(max(1, r.generated)), "traces_validated_against_impl": len(todo),
           "samples": [todo[0][1], todo[len(todo) // 2][1]],
           "evaluations": len(todo), "distinct_nontrivial": len(distinct),
           "rule": "artefact cases enumerated by TLC from Persist.tla (configuration value grammar to depth 2 at two locations; sample class x namespace x dtype x field subset x layout x route; histories; transform class x fitted x namespace x dtype; flow back-end x trained x dtype x kwargs; fit+resume_from_file settings), each written to and reloaded from a real HDF5 file",
           "exhaustive": tier != "quick", "tlc_cases": ncases, "cases_by_kind": dict(kinds),
           "violating_case_results": nv, "known_findings_hit": known,
           "binding_selftest": "equality relation distinguishes list/array, int/float"}
    write_evidence(prop, tier, seed, time.time() - t0, cov, [STD_ASSUMPTIONS[2],
        "encode/decode fidelity is the weakest fit for the technique: TLC contributes the exhaustive case space and the table of allowed normalisations, not state-space reasoning",
        "flows are tiny (trained for <= 2 epochs); density equality after reload within 64 eps(dtype)"], n_unlisted)
    return rc
