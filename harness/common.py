"""Shared plumbing: paths, TLC runner/output parser, evidence writer,
known-findings handling and the verdict protocol of /verif/check.

Exit codes: 0 property held on everything explored (KNOWN-FINDING lines
allowed), 1 at least one unlisted violation observed on the real code
(``VIOLATION property=<id> replay=<path>``), 2 machinery failure.
"""
from __future__ import annotations

import hashlib
import json
import os
import re
import shutil
import subprocess
import sys
import time
from pathlib import Path

VERIF = Path(__file__).resolve().parent.parent
REPO = Path(os.environ.get("VERIF_REPO", "/repo"))
SPEC = VERIF / "spec"
HARNESS = VERIF / "harness"
STUBS = HARNESS / "stubs"
# runs against another tree (seeded changes, coverage diagnostics) keep their evidence out of evidence/
EVIDENCE = Path(os.environ.get("VERIF_EVIDENCE_DIR", str(VERIF / "evidence")))
REPLAYS = VERIF / "replays"
WORK = VERIF / ".work"
FINDINGS_FILE = VERIF / "known_findings.json"
PY = "/venv/bin/python"


class MachineryError(RuntimeError):
    pass


def workdir(name: str) -> Path:
    d = WORK / f"{name}-{os.getpid()}"
    if d.exists():
        shutil.rmtree(d)
    d.mkdir(parents=True)
    return d


def cleanup(d: Path):
    shutil.rmtree(d, ignore_errors=True)


def child_env(extra: dict | None = None) -> dict:
    env = dict(os.environ)
    env["PYTHONPATH"] = f"{REPO}/src:{STUBS}:{HARNESS}"
    env["PYTHONDONTWRITEBYTECODE"] = "1"
    env["PYTHONHASHSEED"] = "0"
    env["SCIPY_ARRAY_API"] = "1"
    env["ASPIRE_VERIF"] = "1"
    env.setdefault("OMP_NUM_THREADS", "1")
    env.setdefault("MKL_NUM_THREADS", "1")
    env.setdefault("JAX_PLATFORMS", "cpu")
    if extra:
        env.update(extra)
    return env


# --------------------------------------------------------------------------
# TLC
# --------------------------------------------------------------------------

_RE_STATES = re.compile(
    r"(\d+) states generated, (\d+) distinct states found, (\d+) states left on queue"
)
_RE_VIOLATED = re.compile(r"Invariant (\S+) is violated")
_RE_PROP_VIOLATED = re.compile(r"(?:Temporal properties were violated|Action property (\S+) is violated|property (\S+) (?:is|was) violated)")
_RE_COVER = re.compile(r"^<(\w+) line (\d+), col \d+ to line \d+, col \d+ of module (\w+)>: (\d+):(\d+)", re.M)


class TLCResult:
    def __init__(self, out: str, rc: int, wall: float, cmd: list[str]):
        self.out = out
        self.rc = rc
        self.wall = wall
        self.cmd = cmd
        m = _RE_STATES.findall(out)
        self.generated = int(m[-1][0]) if m else 0
        self.distinct = int(m[-1][1]) if m else 0
        self.violated = _RE_VIOLATED.findall(out)
        pv = _RE_PROP_VIOLATED.findall(out)
        self.prop_violated = bool(pv)
        self.error = ("Error:" in out) and not self.violated and not self.prop_violated
        self.finished = "Model checking completed" in out or "Finished in" in out
        self.coverage = {}
        for name, _line, _mod, distinct, total in _RE_COVER.findall(out):
            d, t = self.coverage.get(name, (0, 0))
            self.coverage[name] = (d + int(distinct), t + int(total))

    @property
    def ok(self):
        return (not self.violated) and (not self.prop_violated) and not self.error and self.rc == 0

    def printed(self, tag: str):
        """Values printed with PrintT(<<"tag", ...>>) -> list of raw strings."""
        res = []
        for line in self.out.splitlines():
            line = line.strip()
            if line.startswith('<<"' + tag + '"'):
                res.append(line)
        return res


def run_tlc(module: str, cfg: str | None = None, *, workers: int | str = 16,
            specdir: Path | None = None, extra: list[str] | None = None,
            env: dict | None = None, timeout: int = 1800, coverage: bool = False,
            deadlock: bool = False, metaname: str | None = None) -> TLCResult:
    specdir = specdir or SPEC
    meta = workdir("tlc-" + (metaname or module))
    cmd = ["tlc", "-workers", str(workers), "-metadir", str(meta), "-noGenerateSpecTE"]
    if not deadlock:
        cmd += ["-deadlock"]
    if coverage:
        cmd += ["-coverage", "1"]
    if cfg:
        cmd += ["-config", cfg]
    if extra:
        cmd += extra
    cmd += [module]
    e = dict(os.environ)
    if env:
        e.update(env)
    t0 = time.time()
    try:
        p = subprocess.run(cmd, cwd=specdir, env=e, capture_output=True, text=True, timeout=timeout)
        out, rc = p.stdout + p.stderr, p.returncode
    except subprocess.TimeoutExpired as ex:
        out = (ex.stdout or b"").decode() if isinstance(ex.stdout, bytes) else (ex.stdout or "")
        out += "\nTLC TIMEOUT"
        rc = 124
    finally:
        cleanup(meta)
    return TLCResult(out, rc, time.time() - t0, cmd)


def require_tlc_ok(r: TLCResult, what: str):
    if r.rc == 124:
        raise MachineryError(f"TLC timed out on {what}")
    if r.error or (r.rc != 0 and not r.violated and not r.prop_violated):
        raise MachineryError(f"TLC failed on {what} (rc={r.rc}):\n" + r.out[-4000:])


# --------------------------------------------------------------------------
# TLA+ value reader (records, tuples, sets, strings, ints, booleans, functions)
# --------------------------------------------------------------------------

class _P:
    def __init__(self, s):
        self.s = s
        self.i = 0

    def ws(self):
        while self.i < len(self.s) and self.s[self.i] in " \t\r\n":
            self.i += 1

    def peek(self, k=1):
        return self.s[self.i:self.i + k]

    def expect(self, t):
        self.ws()
        if self.s[self.i:self.i + len(t)] != t:
            raise ValueError(f"expected {t!r} at {self.i}: {self.s[self.i:self.i+40]!r}")
        self.i += len(t)

    def value(self):
        self.ws()
        c = self.peek()
        if self.peek(2) == "<<":
            self.i += 2
            out = []
            self.ws()
            if self.peek(2) == ">>":
                self.i += 2
                return tuple(out)
            while True:
                out.append(self.value())
                self.ws()
                if self.peek(2) == ">>":
                    self.i += 2
                    return tuple(out)
                self.expect(",")
        if c == "{":
            self.i += 1
            out = []
            self.ws()
            if self.peek() == "}":
                self.i += 1
                return frozenset()
            while True:
                v = self.value()
                out.append(_freeze(v))
                self.ws()
                if self.peek() == "}":
                    self.i += 1
                    return frozenset(out)
                self.expect(",")
        if c == "[":
            self.i += 1
            out = {}
            self.ws()
            while True:
                self.ws()
                j = self.i
                while self.s[self.i].isalnum() or self.s[self.i] == "_":
                    self.i += 1
                key = self.s[j:self.i]
                self.expect("|->")
                out[key] = self.value()
                self.ws()
                if self.peek() == "]":
                    self.i += 1
                    return out
                self.expect(",")
        if c == "(":
            # function  (k1 :> v1 @@ k2 :> v2)
            self.i += 1
            out = {}
            while True:
                k = self.value()
                self.expect(":>")
                v = self.value()
                out[_freeze(k)] = v
                self.ws()
                if self.peek() == ")":
                    self.i += 1
                    return out
                self.expect("@@")
        if c == '"':
            j = self.i + 1
            k = j
            while self.s[k] != '"':
                if self.s[k] == "\\":
                    k += 1
                k += 1
            self.i = k + 1
            return self.s[j:k].replace('\\"', '"').replace("\\\\", "\\")
        m = re.match(r"-?\d+", self.s[self.i:])
        if m:
            self.i += len(m.group(0))
            return int(m.group(0))
        m = re.match(r"[A-Za-z_][A-Za-z0-9_]*", self.s[self.i:])
        if m:
            self.i += len(m.group(0))
            w = m.group(0)
            if w == "TRUE":
                return True
            if w == "FALSE":
                return False
            return w
        raise ValueError(f"cannot parse at {self.i}: {self.s[self.i:self.i+40]!r}")


def _freeze(v):
    if isinstance(v, dict):
        return tuple(sorted((k, _freeze(x)) for k, x in v.items()))
    if isinstance(v, (list, tuple)):
        return tuple(_freeze(x) for x in v)
    if isinstance(v, (set, frozenset)):
        return frozenset(_freeze(x) for x in v)
    return v


def parse_tla(text: str):
    p = _P(text)
    v = p.value()
    return v


# --------------------------------------------------------------------------
# Known findings / verdicts
# --------------------------------------------------------------------------

def load_findings() -> dict:
    if FINDINGS_FILE.exists():
        return json.loads(FINDINGS_FILE.read_text())
    return {"known": [], "fixed": []}


class Verdict:
    """Collects violations for one property and applies the known-findings rule."""

    def __init__(self, prop: str):
        self.prop = prop
        self.items: list[dict] = []   # {signature, what, replay(dict)}
        self.drift: list[str] = []
        self.notes: list[str] = []

    def violation(self, signature: str, what: str, replay: dict | None = None):
        for it in self.items:
            if it["signature"] == signature:
                it["count"] += 1
                return
        self.items.append({"signature": signature, "what": what, "replay": replay or {}, "count": 1})

    def model_drift(self, what: str):
        if what not in self.drift:
            self.drift.append(what)

    def finish(self) -> tuple[int, int, list[str]]:
        """Print protocol lines.  Returns (exit_code, n_unlisted, known_signatures)."""
        known = {k["signature"]: k for k in load_findings().get("known", []) if k.get("property") == self.prop}
        unlisted = 0
        hit_known = []
        for it in self.items:
            if it["signature"] in known:
                hit_known.append(it["signature"])
                print(f"KNOWN-FINDING: property={self.prop} {known[it['signature']].get('what', it['what'])} [{it['signature']}]")
                continue
            unlisted += 1
            if unlisted > 40:
                continue          # the first 40 are written out; the count is reported below
            d = REPLAYS / self.prop
            d.mkdir(parents=True, exist_ok=True)
            h = hashlib.sha1(it["signature"].encode()).hexdigest()[:10]
            path = d / f"{h}.json"
            path.write_text(json.dumps({"property": self.prop, "signature": it["signature"],
                                        "what": it["what"], "count": it["count"],
                                        "scenario": it["replay"]}, indent=1, default=str))
            print(f"VIOLATION property={self.prop} replay={path}")
            print(f"  signature: {it['signature']}")
            print(f"  what: {it['what']}  (x{it['count']})")
        if unlisted > 40:
            print(f"... and {unlisted - 40} further distinct violations of property={self.prop} (not listed)")
        for dmsg in self.drift[:12]:
            print(f"MODEL-DRIFT: property={self.prop} {dmsg}")
        return (1 if unlisted else 0), unlisted, hit_known


# --------------------------------------------------------------------------
# Evidence
# --------------------------------------------------------------------------

def write_evidence(prop: str, tier: str, seed: int, wall: float, coverage: dict,
                   assumptions: list[str], violations: int, extra: dict | None = None):
    EVIDENCE.mkdir(parents=True, exist_ok=True)
    ev = {
        "property_id": prop,
        "tier": tier,
        "seed": int(seed),
        "level": "model_checking",
        "coverage": coverage,
        "assumptions": assumptions,
        "wall_s": round(float(wall), 2),
        "violations": int(violations),
    }
    if extra:
        ev.update(extra)
    (EVIDENCE / f"{prop}.json").write_text(json.dumps(ev, indent=1, default=str))
    return ev


STD_ASSUMPTIONS = [
    "kernel packages (minipcn, orng, emcee) are stand-ins implementing exactly the API aspire calls; the real packages are assumed to honour the same API",
    "numerical values are projected to ranks / content ids / three-valued flags by the harness before TLC sees them; the projection code (harness/) is trusted",
    "TLC 1.8.0 and the TLA+ CommunityModules are trusted",
]


def tier_and_seed(argv_tier: str | None = None) -> tuple[str, int]:
    tier = argv_tier or os.environ.get("VERIF_TIER") or "quick"
    if tier not in ("quick", "thorough"):
        tier = "quick"
    try:
        seed = int(os.environ.get("VERIF_SEED", "0"))
    except ValueError:
        seed = 0
    return tier, seed
