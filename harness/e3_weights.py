"""C02 (spec -> code): every case of Weights.tla replayed on Samples / utils with the exact
rational expectations of the specification (log / sqrt applied in extended precision)."""
from __future__ import annotations

import json
import math
import multiprocessing as mp
import os
import random
import time

import numpy as np
import mpmath as mpm

import common
import tlacases
from common import MachineryError, Verdict, write_evidence, STD_ASSUMPTIONS

LN2 = math.log(2.0)
mpm.mp.dps = 50


class ScriptedUniform:
    def __init__(self, u):
        self.u = np.asarray(u, dtype=np.float64)

    def uniform(self, size=None, **kw):
        assert size == len(self.u)
        return self.u.copy()


def replay_case(arg):
    ci, c, combos, shifts = arg
    import smcdrv
    from aspire.samples import Samples
    from aspire.utils import effective_sample_size
    out = {"i": ci, "viol": [], "n": 0, "perm": []}
    try:
        n = c["n"]
        ks = c["ks"]
        dead = np.array([k == 99 for k in ks])
        for (ns, dt) in combos:
            xp = smcdrv.get_xp(ns)
            w = 64 if dt == "float64" else 32
            eps = 2.0 ** -52 if w == 64 else 2.0 ** -23
            for sh in shifts:
                out["n"] += 1
                tag = f"{ns}/{dt}/shift={'0' if sh == 0 else ('+' if sh > 0 else '-') + '2^17'}"
                ll = np.array([(-np.inf if t[0] == 99 else (t[0] + sh) * LN2) for t in c["trip"]])
                lp = np.array([t[1] * LN2 for t in c["trip"]])
                lq = np.array([t[2] * LN2 for t in c["trip"]])
                x = np.stack([np.arange(1, n + 1, dtype=float), np.arange(1, n + 1, dtype=float) * 2], axis=1)
                try:
                    s = Samples(x, log_likelihood=ll, log_prior=lp, log_q=lq, xp=xp, dtype=dt)
                except Exception as ex:
                    out["viol"].append((f"NeverRaises|compute_weights|{tag}|{type(ex).__name__}", f"Samples(...) raised {type(ex).__name__}: {str(ex)[:120]} on ks={ks}"))
                    continue
                scale = max(1.0, abs(sh) * LN2 + 8 * LN2)
                tol_log = 16 * eps * scale * n
                # 1. log_w is ll + lp - lq of the same row
                lw = smcdrv.to_np(s.log_w).astype(np.float64)
                exp_lw = np.array([(-np.inf if k == 99 else (k + sh) * LN2) for k in ks])
                ok = np.all(np.where(dead, np.isneginf(lw), np.abs(lw - exp_lw) <= tol_log))
                if not ok:
                    out["viol"].append((f"WeightDef|{tag}", f"log_w {lw.tolist()} != (ll+lp-lq) per row {exp_lw.tolist()} for ks={ks} split={c['split']}"))
                # 2. evidence
                exp_logz = float(mpm.log(mpm.mpf(c["s"]) / (n * mpm.mpf(2) ** c["r"])) + sh * mpm.log(2))
                le = float(smcdrv.to_np(s.log_evidence))
                if not (math.isfinite(le) and abs(le - exp_logz) <= tol_log + 4 * eps * abs(exp_logz)):
                    out["viol"].append((f"EvidenceDef|{tag}", f"log_evidence {le!r} != ln(mean weight) {exp_logz!r} for ks={ks}"))
                # 3. ESS
                exp_ess = float(mpm.mpf(c["essnum"]) / c["essden"])
                # the inputs themselves carry an absolute error of eps * |log w|: the conditioning of
                # every functional of weight *ratios* scales with the magnitude of the log-weights
                rel = 64 * eps * n * scale
                for name, val in (("effective_sample_size", s.effective_sample_size),
                                  ("utils.effective_sample_size", effective_sample_size(s.log_w))):
                    v = float(smcdrv.to_np(val))
                    if not (math.isfinite(v) and abs(v - exp_ess) <= rel * exp_ess + rel):
                        out["viol"].append((f"EssDef|{name}|{tag}", f"{name} {v!r} != (sum w)^2/sum w^2 = {exp_ess!r} for ks={ks}"))
                    elif not (1 - rel <= v <= n * (1 + rel)):
                        out["viol"].append((f"EssRange|{name}|{tag}", f"{name} {v!r} outside [1, {n}]"))
                eff = float(smcdrv.to_np(s.efficiency))
                if not abs(eff - exp_ess / n) <= rel * exp_ess + rel:
                    out["viol"].append((f"EssDef|efficiency|{tag}", f"efficiency {eff!r} != ESS/N {exp_ess/n!r}"))
                # 4. relative error of the evidence
                exp_rel = float(mpm.sqrt(mpm.mpf(c["rvnum"]) / c["rvden"]))
                lee = float(smcdrv.to_np(s.log_evidence_error))
                tol_rel = (256 * eps * n * scale) * max(1.0, exp_rel) + (1e-7 if w == 32 else 0)
                if not (math.isfinite(lee) and abs(lee - exp_rel) <= tol_rel):
                    out["viol"].append((f"RelErrDef|{tag}", f"log_evidence_error {lee!r} != relative std of the mean weight {exp_rel!r} for ks={ks}"))
                # 5. scaled weights
                sw = smcdrv.to_np(s.scaled_weights).astype(np.float64)
                exp_sw = np.array([0.0 if k == 99 else 2.0 ** (k - c["kmax"]) for k in ks])
                if not np.allclose(sw, exp_sw, rtol=64 * eps * scale, atol=0):
                    out["viol"].append((f"WeightDef|scaled|{tag}", f"scaled_weights {sw.tolist()} != w/max w {exp_sw.tolist()}"))
                # 5b. a selection of a weighted set is a weighted set: its ESS is the functional of the
                #     selected weights (exact rational from the lattice exponents), whatever the shift
                sels = [("slice", slice(0, n - 1), list(range(n - 1))),
                        ("mask", np.array([(i + ci) % 2 == 0 for i in range(n)]), [i for i in range(n) if (i + ci) % 2 == 0]),
                        ("index", np.array(list(range(n - 1, -1, -1))[: max(2, n - 1)]), list(range(n - 1, -1, -1))[: max(2, n - 1)])]
                for sname, sel, rows in sels:
                    live = [ks[i] for i in rows if ks[i] != 99]
                    if not live:
                        continue
                    km = max(live)
                    num = sum(mpm.mpf(2) ** (k - km) for k in live) ** 2
                    den = sum(mpm.mpf(2) ** (2 * (k - km)) for k in live)
                    e_sel = float(num / den)
                    try:
                        sub = s[smcdrv.sel_to_ns(sel, ns)]
                        v = float(smcdrv.to_np(sub.effective_sample_size))
                    except Exception as ex:
                        out["viol"].append((f"NeverRaises|select:{sname}|{tag}|{type(ex).__name__}", f"selection raised {type(ex).__name__}: {str(ex)[:120]}"))
                        continue
                    if not (math.isfinite(v) and abs(v - e_sel) <= rel * e_sel + rel):
                        out["viol"].append((f"EssDef|select:{sname}|{tag}", f"ESS of the {sname} selection rows {rows} is {v!r}, (sum w)^2/sum w^2 of the selected weights = {e_sel!r} (ks={ks})"))
                    slw = smcdrv.to_np(sub.log_w).astype(np.float64)
                    if not np.all(np.where(dead[rows], np.isneginf(slw), np.abs(slw - exp_lw[rows]) <= tol_log)):
                        out["viol"].append((f"WeightDef|select:{sname}|{tag}", f"log_w of selection {slw.tolist()} != rows {rows} of {exp_lw.tolist()}"))
                # 5c. re-weighting: the log-likelihood of the same object is replaced (here: + c ln 2 on every row)
                #     and compute_weights() is called again - every functional follows (ShiftLaw on one object)
                if sh == 0 and ci % 2 == 0:
                    cshift = 5
                    try:
                        s2 = Samples(x, log_likelihood=ll, log_prior=lp, log_q=lq, xp=xp, dtype=dt)
                        s2.log_likelihood = s2.array_to_namespace(np.where(dead, -np.inf, ll + cshift * LN2))
                        s2.compute_weights()
                        le2 = float(smcdrv.to_np(s2.log_evidence))
                        ess2 = float(smcdrv.to_np(s2.effective_sample_size))
                        if not (math.isfinite(le2) and abs(le2 - (exp_logz + cshift * LN2)) <= tol_log + 16 * eps * (1 + abs(exp_logz))):
                            out["viol"].append((f"ShiftLaw|recompute|{tag}", f"after adding {cshift} ln 2 to every log-likelihood and compute_weights(), log_evidence is {le2!r}, expected {exp_logz + cshift * LN2!r} (ks={ks})"))
                        if not (math.isfinite(ess2) and abs(ess2 - exp_ess) <= rel * exp_ess + rel):
                            out["viol"].append((f"ShiftLaw|recompute-ess|{tag}", f"after re-weighting ESS is {ess2!r}, expected {exp_ess!r}"))
                        ev2 = getattr(s2, "evidence", None)
                        if ev2 is not None and math.isfinite(float(smcdrv.to_np(ev2))) and abs(math.log(max(float(smcdrv.to_np(ev2)), 1e-300)) - le2) > 1e-3:
                            out["viol"].append((f"EvidenceDef|recompute|{tag}", f"evidence {float(smcdrv.to_np(ev2))!r} and log_evidence {le2!r} of one object disagree after compute_weights()"))
                    except Exception as ex:
                        out["viol"].append((f"NeverRaises|recompute|{tag}|{type(ex).__name__}", f"re-weighting raised {type(ex).__name__}: {str(ex)[:120]}"))
                out["perm"].append(((tuple(sorted(ks)), tuple(c["split"]), ns, dt, sh), (le, float(smcdrv.to_np(s.effective_sample_size)), lee)))
                # 6. rejection sampling with scripted uniforms on the lattice 2^-j (boundary excluded)
                js = []
                for i, k in enumerate(ks):
                    j = (i * 2 + ci) % (2 * c["r"] + 2)
                    if k != 99 and -j == k - c["kmax"]:
                        j += 1
                    js.append(j)
                u = [2.0 ** -j for j in js]
                before = {f: np.array(smcdrv.to_np(getattr(s, f)), dtype=np.float64, copy=True)
                          for f in ("log_w", "weights", "log_likelihood", "log_prior", "log_q", "log_evidence", "effective_sample_size")
                          if getattr(s, f, None) is not None}
                try:
                    rs = s.rejection_sample(rng=ScriptedUniform(u))
                    kept = [int(round(float(v))) for v in np.atleast_2d(smcdrv.to_np(rs.x))[:, 0]] if len(rs.x) else []
                    exp_kept = [i + 1 for i, k in enumerate(ks) if k != 99 and -js[i] < k - c["kmax"]]
                    if kept != exp_kept:
                        out["viol"].append((f"RejectRule|{tag}", f"rejection_sample kept rows {kept}, rule u < w/max w keeps {exp_kept} (ks={ks}, u=2^-{js})"))
                    # a query leaves the weighted set as it was: its log-weights are still ll + lp - lq
                    for f, v0 in before.items():
                        v1 = np.asarray(smcdrv.to_np(getattr(s, f)), dtype=np.float64)
                        if v1.shape != v0.shape or not np.array_equal(v0, v1, equal_nan=True):
                            out["viol"].append((f"WeightDef|after-rejection_sample|{f}|{tag}", f"rejection_sample changed {f} of the set it was called on: {v0.tolist()} -> {v1.tolist()}"))
                            break
                except Exception as ex:
                    out["viol"].append((f"RejectRule|{tag}|{type(ex).__name__}", f"rejection_sample raised {type(ex).__name__}: {str(ex)[:100]}"))
    except Exception:
        import traceback
        out["error"] = traceback.format_exc()
    return out


def near_uniform(verdict, tier, seed):
    """WeightsNear.tla: w_i = 1 + m_i 2^-s.  The exported integers give the exact relative error of the
    evidence; the scale s puts the spread of the weights at sqrt(unit round-off) of each width."""
    import smcdrv
    from aspire.samples import Samples
    consts = {"NMin": "= 2", "NMax": "= 4" if tier == "quick" else "= 6", "MMax": "= 3" if tier == "quick" else "= 4"}
    cases, r, ncases = tlacases.export_cases("WeightsNear", consts, name="weights-near", timeout=3000)
    n_eval = 0
    for ci, c in enumerate(cases):
        n, M, D = c["n"], c["msum"], c["d"]
        for (ns, dt, s) in (("numpy", "float64", 26), ("numpy", "float32", 12), ("torch", "float64", 26), ("torch", "float32", 12),
                            ("jax", "float64", 26), ("jax", "float32", 12), ("numpy", "float64", 12)):
            if tier == "quick" and (ci + s + len(ns)) % 3:
                continue
            n_eval += 1
            xp = smcdrv.get_xp(ns)
            two_s = mpm.mpf(2) ** s
            ll = np.array([float(mpm.log1p(mpm.mpf(m) / two_s)) for m in c["ms"]], dtype=dt)
            zeros = np.zeros(n, dtype=dt)
            x = np.stack([np.arange(1, n + 1, dtype=float), -np.arange(1, n + 1, dtype=float)], axis=1)
            scen = {"builder": "weights_near", "params": {"case": c, "ns": ns, "dtype": dt, "s": s}}
            tag = f"{ns}/{dt}/spread=2^-{s}"
            try:
                smp = Samples(x, log_likelihood=ll, log_prior=zeros, log_q=zeros, xp=xp, dtype=dt)
            except Exception as ex:
                verdict.violation(f"NeverRaises|compute_weights|{tag}|{type(ex).__name__}", f"Samples(...) raised {type(ex).__name__}: {str(ex)[:120]} for offsets {c['ms']}", scen)
                continue
            # exact values for the inputs as rounded to the requested width
            w = [mpm.exp(mpm.mpf(float(v))) for v in ll]
            mean = sum(w) / n
            exp_rel = float(mpm.sqrt(sum((wi - mean) ** 2 for wi in w) / (n * (n - 1))) / mean)
            model_rel = float(mpm.sqrt(mpm.mpf(D) / (n * (n - 1))) / (n * two_s + M))      # the specification's closed form
            exp_ess = float(sum(w) ** 2 / sum(wi ** 2 for wi in w))
            exp_logz = float(mpm.log(mean))
            eps = 2.0 ** -23 if dt == "float32" else 2.0 ** -52
            if abs(model_rel - exp_rel) > 1e-3 * model_rel + 1e-30:
                raise MachineryError(f"WeightsNear: closed form {model_rel} vs value for the rounded inputs {exp_rel} ({c}, {dt}, s={s})")
            lee = float(smcdrv.to_np(smp.log_evidence_error))
            spread = 2.0 ** -s
            # two-pass evaluation: relative accuracy eps / spread on the deviations
            tol = (64 * eps / spread) * max(exp_rel, spread) + 16 * eps
            if not (math.isfinite(lee) and abs(lee - exp_rel) <= tol):
                verdict.violation(f"RelErrDef|near-uniform|{tag}", f"log_evidence_error {lee!r} != relative std of the mean weight {exp_rel!r} for weights 1 + {c['ms']}*2^-{s} (tolerance {tol:.3g})", scen)
            ess = float(smcdrv.to_np(smp.effective_sample_size))
            if not (math.isfinite(ess) and abs(ess - exp_ess) <= 64 * eps * n):
                verdict.violation(f"EssDef|near-uniform|{tag}", f"ESS {ess!r} != {exp_ess!r} for weights 1 + {c['ms']}*2^-{s}", scen)
            le = float(smcdrv.to_np(smp.log_evidence))
            if not (math.isfinite(le) and abs(le - exp_logz) <= 16 * eps):
                verdict.violation(f"EvidenceDef|near-uniform|{tag}", f"log_evidence {le!r} != {exp_logz!r} for weights 1 + {c['ms']}*2^-{s}", scen)
    # exactly representable log-weights with a large common offset: log w_i = c + m_i / 8 with c = +-2^16
    # (exact in single precision as well), so the inputs carry no rounding at all and the functionals
    # must be accurate to the precision of the width - in particular the ESS must not depend on c
    for ci, c in enumerate(cases):
        if len(set(c["ms"])) < 2:
            continue
        n = c["n"]
        for (ns, dt) in (("numpy", "float32"), ("torch", "float32"), ("jax", "float32"), ("numpy", "float64"), ("torch", "float64")):
            if tier == "quick" and (ci + len(ns)) % 3:
                continue
            xp = smcdrv.get_xp(ns)
            eps = 2.0 ** -23 if dt == "float32" else 2.0 ** -52
            w = [mpm.exp(mpm.mpf(m) / 8) for m in c["ms"]]
            exp_ess = float(sum(w) ** 2 / sum(wi ** 2 for wi in w))
            for off in (65536.0, -65536.0, 0.0):
                n_eval += 1
                ll = np.array([off + m / 8.0 for m in c["ms"]], dtype=dt)
                zeros = np.zeros(n, dtype=dt)
                x = np.stack([np.arange(1, n + 1, dtype=float), -np.arange(1, n + 1, dtype=float)], axis=1)
                scen = {"builder": "weights_exact_offset", "params": {"case": c, "ns": ns, "dtype": dt, "offset": off}}
                tag = f"{ns}/{dt}/offset={off:g}"
                try:
                    smp = Samples(x, log_likelihood=ll, log_prior=zeros, log_q=zeros, xp=xp, dtype=dt)
                except Exception as ex:
                    verdict.violation(f"NeverRaises|compute_weights|{tag}|{type(ex).__name__}", f"Samples(...) raised {type(ex).__name__}: {str(ex)[:120]}", scen)
                    continue
                ess = float(smcdrv.to_np(smp.effective_sample_size))
                if not (math.isfinite(ess) and abs(ess - exp_ess) <= 256 * eps * n * exp_ess):
                    verdict.violation(f"EssDef|exact-offset|{tag}", f"ESS {ess!r} != {exp_ess!r} for log-weights {off:g} + {c['ms']}/8 (exactly representable; the ESS does not depend on the offset)", scen)
    return {"near_uniform_cases": ncases, "near_uniform_evaluations": n_eval, "tlc_states": r.distinct, "tlc_transitions": r.generated,
            "laws": ["TwoPassIsOnePass", "SpreadNonNeg", "ZeroIffUniform", "PermInvNear"]}


def main(prop, tier, seed, replay_path=None):
    t0 = time.time()
    rnd = random.Random(seed + 21)
    verdict = Verdict(prop)
    consts = {"R": "= 3", "NMin": "= 2", "NMax": "= 3" if tier == "quick" else "= 5",
              "Splits": "<- MCSplits", "MaxCases": "= 3000" if tier == "quick" else "= 40000"}
    cases, r, ncases = tlacases.export_cases("MC_Weights", consts, name="weights", timeout=3000)
    nss = ["numpy", "torch", "jax"]
    combos_all = [(ns, dt) for ns in nss for dt in ("float64", "float32")]
    shifts = [0, 2 ** 17, -(2 ** 17)]
    if replay_path:
        scen = json.loads(open(replay_path).read())["scenario"]["params"]
        todo = [(0, scen["case"], combos_all, shifts)]
    else:
        todo = []
        for i, c in enumerate(cases):
            combos = combos_all if tier != "quick" else [combos_all[i % len(combos_all)], combos_all[(i + 1) % len(combos_all)]]
            todo.append((i, c, combos, shifts))
    ctx = mp.get_context("fork")
    with ctx.Pool(min(16, os.cpu_count() or 4)) as pool:
        results = pool.map(replay_case, todo, chunksize=max(1, len(todo) // 64))
    errs = [x for x in results if "error" in x]
    if errs:
        raise MachineryError(f"{len(errs)} cases crashed, first:\n{errs[0]['error']}")
    n_eval = sum(x["n"] for x in results)
    byi = {t[0]: t[1] for t in todo}
    for x in results:
        for sig, what in x["viol"]:
            verdict.violation(sig, what, replay={"builder": "weights_case", "params": {"case": byi[x["i"]]}})
    # permutation invariance on the real results
    seen = {}
    for x in results:
        for key, val in x["perm"]:
            if key in seen:
                a, b = seen[key], val
                w32 = key[3] == "float32"
                tol = 1e-3 if w32 else 1e-9
                if any((math.isfinite(p) != math.isfinite(q)) or (math.isfinite(p) and abs(p - q) > tol * (1 + abs(q))) for p, q in zip(a, b)):
                    verdict.violation(f"PermInv|{key[2]}/{key[3]}", f"permuting the samples changes (log Z, ESS, rel. error): {a} vs {b} for multiset {key[0]}",
                                      replay={"builder": "weights_case", "params": {"case": byi[x["i"]]}})
            else:
                seen[key] = val
    near = near_uniform(verdict, tier, seed) if not replay_path else {}
    # binding self-test
    c0 = next(c for c in cases if c["n"] == 3 and len(set(c["ks"])) == 3 and 99 not in c["ks"])
    wrong = dict(c0); wrong["essnum"] = c0["essnum"] + c0["essden"]
    st = replay_case((0, wrong, [("numpy", "float64")], [0]))
    if not any(s.startswith("EssDef") for s, _ in st["viol"]):
        raise MachineryError("C02 self-test: wrong reference ESS accepted")
    rc, n_unlisted, known = verdict.finish()
    distinct = {(tuple(sorted(c["ks"])), tuple(c["split"])) for _, c, _, _ in todo if len(set(c["ks"])) > 1}
    cov = {"states": int(max(1, r.distinct)) + int(near.get("tlc_states", 0)), "transitions": int(max(1, r.generated)) + int(near.get("tlc_transitions", 0)),
           "traces_validated_against_impl": n_eval + int(near.get("near_uniform_evaluations", 0)),
           "near_uniform": {k: v for k, v in near.items() if not k.startswith("tlc_")},
           "samples": [{"case": todo[0][1]}, {"case": todo[len(todo) // 2][1]}],
           "evaluations": n_eval, "distinct_nontrivial": len(distinct),
           "rule": "cases = exponent sequences (N rows, k in {-inf,-3..3}) x splits of k into (ll, lp, lq) enumerated by TLC from Weights.tla, each replayed for namespaces x widths x shifts {0, +-2^17}; distinct = distinct (multiset of exponents, split) with at least two different weights",
           "exhaustive": tier != "quick", "tlc_cases": ncases,
           "laws_checked_by_tlc": ["EssRange", "RelVarNonNeg", "PermInv", "ShiftLaw", "UniformEss"],
           "binding_selftest": "wrong reference ESS rejected", "known_findings_hit": known}
    write_evidence(prop, tier, seed, time.time() - t0, cov, [STD_ASSUMPTIONS[2],
        "inputs live on the ln 2 lattice (weights are exact powers of two); behaviour at arbitrary reals is inferred from functional form",
        "log and sqrt of the exact rationals are evaluated with mpmath at 50 digits",
        "TLC's state graph is trivial here: the module enumerates a constant-level case set and checks its laws as ASSUMEs"], n_unlisted)
    return rc
