"""Checks decided on real SMC runs validated against SMCTrace.tla / SMCRun.tla /
Tempering.tla:  C06 C07 C08 C09(E2) C10 C11 C12 C17 C18 C20(E2).

Each check = (E1) exhaustive TLC run of the design module(s) it rests on
+ (E2) a corpus of real runs, projected and validated by TLC, every monitor
evaluated on every event, + a self-test of the binding (corrupted traces
must be rejected by the expected monitor).
"""
from __future__ import annotations

import copy
import itertools
import json
import multiprocessing as mp
import os
import pickle
import random
import sys
import time

import common
from common import (MachineryError, Verdict, parse_tla, run_tlc, require_tlc_ok, workdir, cleanup,
                    write_evidence, STD_ASSUMPTIONS)

OWNER = {
    # the temperature of the target a kernel is handed is the temperature of the stage it mutates
    # (the final stage after a capped schedule included)
    "C05": {"KernelTemperature"},
    "C06": {"StrictlyIncreasing", "InUnit", "EndsAtOneOrCap", "FixedExactlyN", "CapHonoured",
            "FloorHonoured", "NeverRaises"},
    "C07": {"AdaptiveMaximal"},
    "C08": {"EvidenceTerms", "EvidenceSum", "ErrorIsRootSumVar", "EvidenceIndependent",
            # the terms are defined on the recorded populations and temperatures: the record they are recomputed from
            "HistoryFaithful_populations", "HistoryFaithful_ratio", "HistoryFaithful_payload_pops"},
    "C09": {"ProbProportional", "NewBetaAndSize"},
    "C10": {"CachedCoherent", "InitialPopulation"},
    "C11": {"ResumeDeterministic"},
    "C12": {"CadenceExact", "CadenceExact_final", "FileHoldsLatest", "FileHoldsLatest_payload_pop",
            "Loadable", "ConfigAndFlowFirst", "FlowIsCurrent", "ResumeFromFileWorks"},
    "C15": {"PrecisionKept"},
    "C17": {"PriorBeforeLikelihood", "CountExact"},
    "C18": {"HistoryFaithful_lengths", "HistoryFaithful_betas", "HistoryFaithful_populations",
            "HistoryFaithful_ess", "HistoryFaithful_ratio", "HistoryFaithful_payload_betas",
            "HistoryFaithful_payload_pops"},
    "C20": {"UserRngUsed", "RunDeterministic"},
}


# --------------------------------------------------------------------------
# Group builders (executed in worker processes)
# --------------------------------------------------------------------------

def _build(spec):
    """spec = {"id", "builder", "params"} -> projected group (JSON-able)."""
    import smcdrv
    b = spec["builder"]
    p = spec["params"]
    try:
        if b == "single":
            r = smcdrv.run_smc(p["cfg"])
            g = smcdrv.project_group(spec["id"], [r])
        elif b == "variants":
            ids = smcdrv.IdTable()
            runs = []
            for i, delta in enumerate(p["deltas"]):
                c = dict(p["cfg"])
                c.update(delta)
                runs.append(smcdrv.run_smc(c, ids=ids, role="reference" if i == 0 else "variant"))
            # reference role would trigger full comparison; variants compare evidence only
            runs[0]["role"] = "single"
            g = smcdrv.project_group(spec["id"], runs)
        elif b == "repeat":
            ids = smcdrv.IdTable()
            r1 = smcdrv.run_smc(p["cfg"], ids=ids, role="reference")
            import numpy as np
            import random as _r
            np.random.seed(987654321 % (2**31)); _r.seed(4242)
            try:
                import torch
                torch.manual_seed(99)
            except Exception:
                pass
            c2 = dict(p["cfg"]); c2["kseed"] = p["cfg"].get("kseed", p["cfg"].get("seed", 1))
            if p.get("same_object"):
                # the second run is made on the *same sampler object* with every random source re-seeded
                c2["reseed_all"] = True
                r2 = smcdrv.run_smc(c2, ids=ids, role="repeat", reuse=r1)
            else:
                r2 = smcdrv.run_smc(c2, ids=ids, role="repeat")
            g = smcdrv.project_group(spec["id"], [r1, r2])
        elif b == "resume":
            g = _build_resume(spec["id"], p)
        elif b == "rerun":
            # several sample() calls (no resume) on one sampler object: each is a fresh run
            ids = smcdrv.IdTable()
            runs = []
            prev = None
            for cc in p["cfgs"]:
                c2 = dict(p["cfg"]); c2.update(cc)
                prev = smcdrv.run_smc(c2, ids=ids, role="single", reuse=prev)
                runs.append(prev)
            g = smcdrv.project_group(spec["id"], runs)
        elif b == "calls":
            import gendrv
            r = gendrv.run_calls(p["cfg"])
            g = gendrv.project_calls_group(spec["id"], [r])
        elif b == "pool":
            import gendrv
            runs = gendrv.run_pool_sequence(p["cfg"])
            g = gendrv.project_calls_group(spec["id"], runs)
        elif b == "calls_repeat":
            import gendrv
            import numpy as np
            import random as _r
            ids = smcdrv.IdTable()
            r1 = gendrv.run_calls(p["cfg"], ids=ids, role="reference")
            np.random.seed(192837465 % (2**31)); _r.seed(5)
            c2 = dict(p["cfg"]); c2["kseed"] = p["cfg"].get("kseed", p["cfg"].get("seed", 1))
            r2 = gendrv.run_calls(c2, ids=ids, role="repeat")
            g = gendrv.project_calls_group(spec["id"], [r1, r2])
        elif b == "flow_pair":
            import gendrv
            g = gendrv.flow_pair_group(spec["id"], p["cfg"])
        elif b == "aspire_single":
            wd = workdir("asp")
            try:
                c = dict(p["cfg"]); c["path"] = str(wd / "run.h5")
                r = smcdrv.run_aspire(c)
                g = smcdrv.project_group(spec["id"], [r])
            finally:
                cleanup(wd)
        elif b == "aspire_resume":
            g = _build_aspire_resume(spec["id"], p)
        else:
            raise ValueError(b)
        g["spec"] = spec
        return g
    except Exception as ex:  # machinery failure inside a worker
        import traceback
        return {"id": spec["id"], "error": traceback.format_exc(), "spec": spec}


def _build_resume(gid, p):
    """reference run ‖ crashed run (fault at likelihood call k) ‖ run resumed from the last
    payload written, by the given route, with the same arguments and a fresh generator."""
    import smcdrv
    ids = smcdrv.IdTable()
    cfg = dict(p["cfg"])
    route = p["route"]
    wd = None
    path = None
    if route == "path":
        wd = workdir("resume")
        path = str(wd / "ck.h5")
    try:
        ref_cfg = dict(cfg)
        ref = smcdrv.run_smc(ref_cfg, ids=ids, role="reference")
        c2 = dict(cfg)
        c2["fault_k"] = p["fault_k"]
        c2["fault_on"] = p.get("fault_on", "like")
        if path:
            c2["path"] = path
        # from_final: the run is not interrupted at a likelihood call at all - the job dies after the last
        # checkpoint (the one written after the final stage) and is resumed from that one
        crashed = smcdrv.run_smc(c2, ids=ids, role="single" if p.get("from_final") else "crashed")
        runs = [ref, crashed]
        if (crashed["status"] == "fault" or (p.get("from_final") and crashed["status"] == "ok")) and crashed["tracer"].payloads:
            def source(run):
                """the last checkpoint `run` wrote, in the form the route passes it"""
                blob_ = run["tracer"].payloads[-1]
                if route == "bytes":
                    return blob_
                if route == "dict":
                    return pickle.loads(blob_)          # a fresh dictionary
                if route == "live_dict":
                    # the very object the callback was handed (sampler.last_checkpoint_state)
                    return [e["_state"] for e in run["tracer"].ev if e["t"] == "ckpt"][-1]
                return path
            blob = crashed["tracer"].payloads[-1]
            c3 = dict(cfg)
            if path:
                c3["path"] = path
            if p.get("every_resume"):
                c3["every"] = p["every_resume"]      # the resumed run may ask for another cadence
            role3 = "resumed"
            if p.get("min_step_resume") is not None:
                # the resuming call states another minimum step: its own steps obey it (the continuation
                # is then not comparable with the reference run)
                c3["min_step"] = p["min_step_resume"]; c3["max_n_steps"] = None
                role3 = "resumed_changed"
            if not p.get("fault_k2"):
                res = smcdrv.run_smc(c3, ids=ids, role=role3, resume_from=source(crashed))
                res["restore_state"] = pickle.loads(blob)   # projection of the payload as it was written
                runs.append(res)
            else:
                # a first resume attempt is interrupted again; the run is then resumed from the last
                # checkpoint written so far (possibly the very same dictionary object once more)
                src1 = source(crashed)
                c4 = dict(c3); c4["fault_k"] = p["fault_k2"]
                crashed2 = smcdrv.run_smc(c4, ids=ids, role="crashed", resume_from=src1)
                crashed2["restore_state"] = pickle.loads(blob)
                runs.append(crashed2)
                if crashed2["status"] == "fault":
                    if crashed2["tracer"].payloads:
                        src2, blob2 = source(crashed2), crashed2["tracer"].payloads[-1]
                    else:
                        src2, blob2 = src1, blob
                    res2 = smcdrv.run_smc(c3, ids=ids, role="resumed", resume_from=src2)
                    res2["restore_state"] = pickle.loads(blob2)
                    runs.append(res2)
        g = smcdrv.project_group(gid, runs)
        g["cfg"]["route"] = route
        return g
    finally:
        if wd:
            cleanup(wd)


def _build_aspire_resume(gid, p):
    """Top-level API: reference run ‖ run interrupted at likelihood/prior call k (checkpoints
    written by the library's file callback) ‖ Aspire.resume_from_file(file).sample_posterior(same
    arguments)."""
    import smcdrv
    import h5py
    ids = smcdrv.IdTable()
    wd = workdir("aspres")
    try:
        cfg = dict(p["cfg"])
        cref = dict(cfg); cref["path"] = str(wd / "ref.h5")
        ref = smcdrv.run_aspire(cref, ids=ids, role="reference")
        c2 = dict(cfg); c2["path"] = str(wd / "run.h5")
        c2["fault_k"] = p["fault_k"]; c2["fault_on"] = p.get("fault_on", "like")
        crashed = smcdrv.run_aspire(c2, ids=ids, role="crashed")
        runs = [ref, crashed]
        if crashed["status"] == "fault":
            blob = None
            try:
                with h5py.File(c2["path"], "r") as f:
                    if "checkpoint" in f and "state" in f["checkpoint"]:
                        blob = f["checkpoint"]["state"][...].tobytes()
            except Exception:
                blob = None
            implicit = bool(p.get("implicit_ckpt"))
            if blob is None and implicit:
                # interrupted before its first checkpoint: the file holds the configuration and the proposal
                # only; the rebuilt instance starts over and keeps checkpointing to the same file
                c3 = dict(cfg); c3["path"] = c2["path"]; c3["every"] = None; c3["implicit_ckpt"] = True
                res = smcdrv.run_aspire(c3, ids=ids, role="restart", resume_file=c2["path"])
                res["resumed"] = False
                runs.append(res)
            if blob is not None:
                c3 = dict(cfg); c3["path"] = c2["path"]
                if implicit:
                    c3["every"] = None; c3["implicit_ckpt"] = True
                elif p.get("every_resume"):
                    c3["every"] = p["every_resume"]
                try:
                    state = pickle.loads(blob)
                except Exception:
                    state = None
                res = smcdrv.run_aspire(c3, ids=ids, role="resumed", resume_file=c2["path"])
                if state is not None:
                    res["restore_state"] = state
                runs.append(res)
        g = smcdrv.project_group(gid, runs)
        g["cfg"]["route"] = "file"
        return g
    finally:
        cleanup(wd)


def build_groups(specs, procs=None):
    procs = procs or min(16, os.cpu_count() or 4)
    if len(specs) < 8:
        return [_build(s) for s in specs]
    ctx = mp.get_context("fork")
    with ctx.Pool(procs) as pool:
        return pool.map(_build, specs, chunksize=max(1, len(specs) // (procs * 8)))


# --------------------------------------------------------------------------
# TLC trace validation
# --------------------------------------------------------------------------

def validate(groups, name="smc"):
    """-> (verdicts {gid: set((run_index, clause))}, tlc_states, tlc_transitions)"""
    wd = workdir("trace-" + name)
    try:
        shards = max(1, min(8, len(groups) // 150))
        parts = [groups[i::shards] for i in range(shards)]
        files = []
        for i, part in enumerate(parts):
            f = wd / f"tr{i}.ndjson"
            with open(f, "w") as fh:
                for g in part:
                    gg = {k: v for k, v in g.items() if k != "spec"}
                    fh.write(json.dumps(gg) + "\n")
            files.append(f)
        import concurrent.futures as cf
        verdicts = {}
        states = trans = 0
        def one(i):
            return run_tlc("SMCTrace", "SMCTrace.cfg", workers=1, env={"TRACE_FILE": str(files[i])},
                           metaname=f"{name}-{i}", timeout=3000)
        with cf.ThreadPoolExecutor(max_workers=shards) as ex:
            results = list(ex.map(one, range(shards)))
        for i, r in enumerate(results):
            require_tlc_ok(r, f"SMCTrace shard {i}")
            if "AllJudged" in r.out and "violated" in r.out.lower() and "Postcondition" in r.out:
                raise MachineryError("not every trace received a verdict:\n" + r.out[-2000:])
            states += r.distinct
            trans += r.generated
            out = r.out
            import re as _re
            for m in _re.finditer(r'<<\s*"VERDICT"', out):
                p = common._P(out[m.start():])
                val = p.value()
                verdicts[val[1]] = {(int(x[0]), str(x[1])) for x in val[2]}
        missing = [g["id"] for g in groups if g["id"] not in verdicts]
        if missing:
            raise MachineryError(f"{len(missing)} traces without verdict, e.g. {missing[:3]}")
        return verdicts, states, trans
    finally:
        cleanup(wd)


# --------------------------------------------------------------------------
# Self-test of the binding: corrupted copies of accepted traces
# --------------------------------------------------------------------------

def _find(evs, t, nth=0):
    idx = [i for i, e in enumerate(evs) if e["t"] == t]
    return idx[nth] if len(idx) > nth else None


def corruptions(g):
    """yield (name, expected_clause, corrupted_group) for an accepted single-run group"""
    out = []
    base = {k: v for k, v in g.items() if k != "spec"}
    evs = base["runs"][0]["ev"]
    fi = _find(evs, "final")
    if fi is None:
        return out
    fin = evs[fi]
    T = fin["iterations"]

    def mk(name, clause, fn):
        c = copy.deepcopy(base)
        c["id"] = f"selftest:{name}:{g['id']}"
        try:
            if fn(c["runs"][0]["ev"]) is False:
                return
        except (IndexError, KeyError, TypeError):
            return
        out.append((name, clause, c))

    if T >= 2:
        def swap_pops(e):
            f = e[fi]
            if f["pops"][1] == f["pops"][2]:
                return False
            f["pops"][1], f["pops"][2] = f["pops"][2], f["pops"][1]
        mk("swap_history_pops", "HistoryFaithful_populations", swap_pops)

        def swap_betas(e):
            f = e[fi]; f["betas"][0], f["betas"][1] = f["betas"][1], f["betas"][0]
        mk("swap_betas", "StrictlyIncreasing", swap_betas)
    if T >= 1:
        def drop_len(e):
            e[fi]["lens"]["ess"] -= 1
        mk("short_series", "HistoryFaithful_lengths", drop_len)

        def bad_prov(e):
            e[fi]["ratio_prov"][0] = [[7, 0, 1]]
        mk("ratio_wrong_population", "EvidenceTerms", bad_prov)

        def cnt(e):
            e[fi]["nlike"] += 1
        mk("miscount", "CountExact", cnt)

        def incoh(e):
            e[fi]["coh"][-1][2] = False
        mk("incoherent_logq", "CachedCoherent", incoh)

        def noprior(e):
            k = _find(e, "like", 1)
            e[k]["has_prior"] = False
        mk("like_without_prior", "PriorBeforeLikelihood", noprior)

        def chprov(e):
            k = _find(e, "choice", 0)
            e[k]["prov"] = [[0, 0, 0]]
        mk("choice_wrong_weights", "ProbProportional", chprov)

        def not_one(e):
            f = e[fi]
            if base["cfg"]["max_n_steps"]:
                return False
            f["betas"][-1] = base["one"] + 1
        mk("ends_above_one", "InUnit", not_one)

        def notmax(e):
            f = e[fi]
            if not base["cfg"]["adaptive"] or not f["have_pops"]:
                return False
            f["forced"] = [False] * T
            f["meets"] = ["yes"] * T
            f["next_meets"] = ["yes"] * T
            f["meets_one"] = ["no"] * T
            f["at_one"] = [False] * T
        mk("step_not_maximal", "AdaptiveMaximal", notmax)
    ck = _find(evs, "ckpt", 0)
    if ck is not None and base["cfg"]["every"] > 0 and not evs[ck].get("_forced"):
        n_ck = len([e for e in evs if e["t"] == "ckpt"])
        if n_ck >= 2:
            def dropck(e):
                del e[ck]
            mk("drop_checkpoint", "CadenceExact", dropck)

            def stalepay(e):
                e[ck]["hbetas"] = e[ck]["hbetas"][:-1]
            mk("payload_history_short", "HistoryFaithful_payload_betas", stalepay)
    return out


# --------------------------------------------------------------------------
# Corpora
# --------------------------------------------------------------------------

def _mk(i, builder, params):
    return {"id": f"g{i:05d}", "builder": builder, "params": params}


def corpus_schedule(tier, seed, rnd):
    """C06 / C07: option grid x population shapes."""
    specs = []
    widths = [1e-3, 0.05, 0.5, 3.0, 1e2] if tier == "quick" else [1e-4, 1e-3, 0.02, 0.05, 0.2, 0.5, 1.0, 3.0, 1e2, 1e4]
    Ns = [2, 8, 32] if tier == "quick" else [2, 3, 8, 32, 64]
    seeds = [seed * 7 + 1, seed * 7 + 2] if tier == "quick" else [seed * 7 + k for k in range(1, 5)]
    targets = [0.5, 0.1, 0.9, (0.2, 0.8)]
    # adaptive
    combos = []
    for ms in (None, 0, 0.0, 0.05, 0.3, 1.0):       # 0 and 0.0: "no minimum step", stated explicitly
        for mx in (None, 1, 2, 5):
            for tg in targets:
                combos.append(dict(adaptive=True, min_step=ms, max_n_steps=mx, target=tg))
    for c in combos:
        for w in widths:
            for sd in seeds:
                N = rnd.choice(Ns)
                cc = dict(c, width=w, N=N, seed=sd, rate=rnd.choice([0.5, 1.0, 2.0]),
                          budget=300 if tier == "quick" else 800,
                          cut=rnd.choice([None, None, None, 0.0, 0.8]))     # likelihood exactly zero on part of the support
                specs.append(cc)
    # fixed
    nsteps = [1, 2, 3, 5, 6, 7, 10, 49] if tier == "quick" else [1, 2, 3, 4, 5, 6, 7, 9, 10, 11, 13, 20, 49, 100]
    for n in nsteps:
        for w in (0.05, 0.5, 3.0):
            for mx in (None, 2):
                specs.append(dict(adaptive=False, n_steps=n, max_n_steps=mx, width=w, N=rnd.choice(Ns), seed=seeds[0],
                                  budget=300 if tier == "quick" else 800))
    # fixed n_steps given together with adaptive (n_steps ignored by the adaptive controller)
    for w in (0.05, 0.5):
        specs.append(dict(adaptive=True, n_steps=3, width=w, N=8, seed=seeds[0]))
    # every sampler class has its own sample() that passes the schedule options on: each option is
    # exercised through each class (and the array namespaces), in the quick tier as well
    extra = []
    for c in specs[::3]:
        for smp, ns in (("emcee_smc", "numpy"), ("minipcn_smc", "torch"), ("minipcn_smc", "jax")):
            e = dict(c, sampler=smp, ns=ns)
            if smp == "emcee_smc":
                e.pop("min_step", None); e.pop("max_n_steps", None)
            # domain: log-densities must be representable to ~1e-3 in the requested precision; in
            # float32 a likelihood of width 1e-4 gives log-values of 1e8 with an error of +-8, i.e.
            # numerical noise (numpy then refuses the resampling probabilities).  Extremely peaked
            # likelihoods are exercised in float64, float32 down to width 0.05.
            if ns != "numpy":
                e["dtype"] = "float64" if (c["width"] < 0.05 or len(extra) % 2 == 0) else "float32"
            extra.append(e)
    rnd.shuffle(extra)
    if tier == "quick":
        rnd.shuffle(specs)
        specs = specs[:800] + extra[:400]
    else:
        specs += extra[:3000]
    return [_mk(i, "single", {"cfg": c}) for i, c in enumerate(specs)]


def corpus_general(tier, seed, rnd, n=None):
    """mixed corpus for the per-event monitors (C08, C09, C10, C17, C18, C15)."""
    specs = []
    n = n or (300 if tier == "quick" else 4000)
    nss = ["numpy"] * 6 + (["torch", "jax"] if tier == "quick" else ["torch", "jax"] * 2)
    # every (namespace, precision, preconditioning given / not given) combination occurs whatever the seed
    k0 = 0
    for ns0 in ("numpy", "torch", "jax"):
        for dt0 in ("float64", "float32"):
            for pc0 in ("none", "default"):
                specs.append(dict(sampler="minipcn_smc", ns=ns0, N=8, dims=3, width=0.5, seed=seed * 1000 + 900 + k0, target=0.5,
                                  precond=pc0, split=2, recipe=False, bad_frac=0.0, dtype=dt0, mcmc_steps=2, cut=None))
                k0 += 1
    for i in range(n):
        smp = rnd.choice(["minipcn_smc"] * 3 + ["emcee_smc"])
        ns = rnd.choice(nss) if smp == "minipcn_smc" else "numpy"
        c = dict(sampler=smp, ns=ns, N=rnd.choice([2, 4, 8, 16]), dims=rnd.choice([1, 2, 3]),
                 width=rnd.choice([0.05, 0.2, 0.5, 1.0, 3.0]), seed=seed * 1000 + i,
                 target=rnd.choice([0.5, 0.3, 0.8, (0.2, 0.8)]),
                 precond=rnd.choice(["none", "default", "affine", "logit", "full", "periodic"]),
                 split=rnd.choice([1, 1, 2, 3]), recipe=rnd.choice([False, False, True]),
                 bad_frac=rnd.choice([0.0, 0.0, 0.3, 0.9]),
                 dtype=rnd.choice([None, None, "float64", "float32"]),
                 mcmc_steps=rnd.choice([1, 2, 3]),
                 cut=rnd.choice([None, None, 0.2, 0.9]))      # likelihood exactly zero on part of the prior support
        if c["dtype"] == "float32" and i % 2 == 0:
            c["ret64"] = True       # the user's functions evaluate in double precision whatever they are handed
        if smp == "minipcn_smc":
            c["min_step"] = rnd.choice([None, None, 0.1])
            c["max_n_steps"] = rnd.choice([None, None, 3])
        if rnd.random() < 0.3:
            c.update(adaptive=False, n_steps=rnd.choice([1, 2, 3, 4, 5, 8]))
        if rnd.random() < 0.4:
            c["n_final"] = rnd.choice([c["N"] * 2, c["N"] + 1, max(1, c["N"] // 2), c["N"]])
            if rnd.random() < 0.5:
                c["n_final_steps"] = rnd.choice([1, 4])
        if rnd.random() < 0.5:
            c["every"] = rnd.choice([1, 2, 3, 4])
        if c["dims"] == 1 and c["precond"] == "periodic":
            pass
        if ns == "torch" and c["dtype"] is None:
            c["dtype"] = "float32"
        if c["dtype"] == "float32" and i % 2 == 0:
            c["ret64"] = True   # torch default; requested explicitly so that width is known
        if ns == "jax" and c["dtype"] is None:
            c["dtype"] = "float64"
        specs.append(c)
    return [_mk(i, "single", {"cfg": c}) for i, c in enumerate(specs)]


def corpus_calls(tier, seed, rnd, n=None, repeat=False):
    specs = []
    n = n or (60 if tier == "quick" else 1500)
    for i in range(n):
        smp = rnd.choice(["importance", "minipcn", "emcee", "convert"])
        ns = rnd.choice(["numpy"] * 4 + ["torch", "jax"])
        if smp not in ("importance", "convert"):
            ns = rnd.choice(["numpy"] * 5 + ["torch"]) if smp == "minipcn" else "numpy"
        c = dict(sampler=smp, ns=ns, N=rnd.choice([4, 8, 16]), dims=rnd.choice([1, 2, 3]),
                 width=rnd.choice([0.2, 0.5, 1.0]), seed=seed * 313 + i,
                 precond=rnd.choice(["none", "default", "affine", "logit", "full"]) if smp not in ("importance", "convert") else "none",
                 recipe=rnd.choice([False, True]), bad_frac=rnd.choice([0.0, 0.3, 0.9]),
                 dtype=rnd.choice([None, "float64", "float32"]), split=rnd.choice([1, 2]))
        if ns == "torch" and c["dtype"] is None:
            c["dtype"] = "float32"
        if c["dtype"] == "float32" and i % 2 == 0:
            c["ret64"] = True
        if ns == "jax" and c["dtype"] is None:
            c["dtype"] = "float64"
        if smp in ("minipcn", "emcee") and ns != "numpy":
            c["ns"] = "numpy"
            if c["dtype"] is None:
                pass
        if smp != "convert" and i % 3 == 1:
            c["via"] = "aspire"          # through Aspire.sample_posterior(sampler=..., rng=...)
            c["out_ns"] = [None, "numpy", "torch", "jax"][(i // 3) % 4]
            c["precond"] = "default" if c["precond"] != "none" else "none"
        specs.append(_mk(i, "calls_repeat" if repeat else "calls", {"cfg": c}))
    for sp in specs:
        sp["id"] = "c" + sp["id"]
    # sampling inside and after the multiprocessing-pool context
    if not repeat:
        for i in range(12 if tier == "quick" else 200):
            c = dict(ns=rnd.choice(["numpy", "numpy", "torch", "jax"]), N=rnd.choice([4, 8]), dims=2, width=rnd.choice([0.3, 1.0]),
                     seed=seed * 7 + i, recipe=rnd.choice([False, True]), bad_frac=rnd.choice([0.0, 0.3]),
                     par_prior=(i % 2 == 0), close_pool=(i % 3 == 0), second_context=(i % 4 == 0), dtype="float64")
            specs.append({"id": f"p{i:04d}", "builder": "pool", "params": {"cfg": c}})
    return specs


def corpus_rerun(tier, seed, rnd):
    """the same sampler object used for several consecutive sample() calls with different options"""
    specs = []
    n = 30 if tier == "quick" else 500
    opts = [dict(target=(0.3, 0.8)), dict(target=0.5), dict(adaptive=False, n_steps=3), dict(max_n_steps=2),
            dict(n_final=12), dict(target=0.8, min_step=0.2), dict(every=1), dict(adaptive=False, n_steps=2, every=2, n_final=5)]
    for i in range(n):
        # (affine whitening of a collapsed tiny population has zero spread and yields NaN coordinates: that
        #  is a property of the whitening, not of the schedule; it is kept out of this corpus)
        base = dict(N=rnd.choice([8, 12]), width=rnd.choice([0.3, 0.5, 1.0]), seed=seed * 17 + i,
                    sampler=rnd.choice(["minipcn_smc", "minipcn_smc", "emcee_smc"]), rng_route="init",
                    precond=rnd.choice(["none", "default"]))
        k = rnd.choice([2, 2, 3])
        cfgs = [dict(rnd.choice(opts)) for _ in range(k)]
        if base["sampler"] == "emcee_smc":
            cfgs = [{kk: vv for kk, vv in cc.items() if kk not in ("min_step", "max_n_steps")} for cc in cfgs]
        specs.append({"id": f"u{i:05d}", "builder": "rerun", "params": {"cfg": base, "cfgs": cfgs}})
    return specs


def corpus_variants(tier, seed, rnd):
    """C08 EvidenceIndependent: same seeds, differing n_final / cadence."""
    specs = []
    n = 60 if tier == "quick" else 1200
    for i in range(n):
        N = rnd.choice([4, 8, 16])
        c = dict(N=N, width=rnd.choice([0.2, 0.5, 1.0]), seed=seed * 100 + i,
                 sampler=rnd.choice(["minipcn_smc", "minipcn_smc", "emcee_smc"]))
        deltas = [dict(), dict(n_final=2 * N), dict(every=1), dict(every=3, n_final=N + 3)]
        specs.append(_mk(i, "variants", {"cfg": c, "deltas": deltas}))
    return specs


def corpus_resume(tier, seed, rnd):
    """C11: fault at each likelihood call x route x schedule options."""
    import smcdrv
    specs = []
    base_cfgs = []
    n_cfg = 12 if tier == "quick" else 150
    for i in range(n_cfg):
        # the options rotate (every value of every option occurs whatever the seed); the seed varies the
        # random streams, population sizes and widths
        c = dict(N=rnd.choice([4, 8]), width=rnd.choice([0.3, 0.5, 1.0]), seed=seed * 50 + i,
                 every=[1, 2, 1, 3][i % 4], mcmc_steps=[1, 2][(i // 2) % 2],
                 sampler="minipcn_smc", rng_route=["sample", "init"][i % 2],
                 precond=["none", "affine", "default", "full"][(i // 2) % 4])
        kind = i % 4
        if kind == 1:
            c.update(adaptive=False, n_steps=[2, 3, 4][(i // 4) % 3])
        elif kind == 2:
            # peaked: the rescaled floor binds.  (Whitening a population that has collapsed onto one particle has
            # zero spread and yields NaN coordinates - a property of the whitening, kept out of this corpus.)
            c.update(max_n_steps=[2, 3, 6][(i // 4) % 3], width=[0.05, 0.1][(i // 4) % 2], N=8,
                     precond=["none", "default"][(i // 8) % 2])
        elif kind == 3:
            c.update(min_step=0.15)
        if c["precond"] in ("affine", "full"):
            # data-dependent preconditioning: enough particles and iterations that the whitening is well defined
            # before and after every resume point
            c["N"] = 8; c["width"] = 0.3
        if i % 3 != 1:
            c["n_final"] = c["N"] * 2
            if i % 3 == 0:
                c["n_final_steps"] = 3
        base_cfgs.append(c)
    k = 0
    for c in base_cfgs:
        # number of likelihood calls of the uninterrupted run
        ref = smcdrv.run_smc(dict(c))
        nlike = ref["tracer"].k
        ks = list(range(2, nlike + 1))
        if tier == "quick" and len(ks) > 10:
            ks = sorted(rnd.sample(ks, 10))
        elif len(ks) > 40:
            ks = sorted(rnd.sample(ks, 40))
        for fk in ks:
            # every route for every configuration, rotating over the fault points (not left to chance)
            route = ["bytes", "dict", "live_dict", "path", "live_dict"][(k + base_cfgs.index(c)) % 5]
            p = {"cfg": c, "fault_k": fk, "route": route}
            if rnd.random() < 0.15:
                p["fault_k2"] = rnd.choice([1, 2, 3, 5])
            if rnd.random() < 0.3:
                p["every_resume"] = rnd.choice([1, 2, 3])
            specs.append(_mk(k, "resume", p))
            k += 1
        specs.append(_mk(k, "resume", {"cfg": c, "fault_k": None, "from_final": True,
                                       "route": ["bytes", "dict", "path"][base_cfgs.index(c) % 3]}))
        k += 1
    return specs


def reload_route(verdict, tier, seed):
    """C10 on what the library *records*: the final samples and every stored population of real runs,
    written with the library's own save() and read back with load(), must still pair each row's
    coordinates with its own log-densities (parameter names deliberately not in alphabetical order)."""
    import h5py
    import smcdrv
    from aspire.history import SMCHistory
    n = 0
    names = {1: ["q"], 2: ["q", "alpha"], 3: ["q", "alpha", "m"], 4: ["t", "q", "alpha", "m"]}
    for i in range(6 if tier == "quick" else 60):
        dims = [3, 2, 3, 4, 1, 3][i % 6]
        cfg = dict(N=8, dims=dims, width=[0.5, 1.0][i % 2], seed=seed * 11 + i, mcmc_steps=1, pnames=names[dims],
                   ns=["numpy", "torch", "jax"][i % 3], dtype="float64", sampler="minipcn_smc",
                   n_final=12 if i % 2 else None, precond=["none", "default"][i % 2])
        r = smcdrv.run_smc(cfg)
        scen = {"builder": "reload_route", "params": {"cfg": cfg}}
        if r["status"] != "ok":
            raise MachineryError(f"reload_route run failed: {r['status']} {r['exc']}")
        wd = workdir("reload")
        try:
            path = str(wd / "r.h5")
            res, hist = r["result"], r["sampler"].history
            for flat in (False, True):
                with h5py.File(path, "w") as f:
                    res.save(f, path="final", flat=flat)
                    hist.save(f, path="history")
                with h5py.File(path, "r") as f:
                    back = type(res).load(f, path="final")
                    hback = SMCHistory.load(f, path="history")
                sets = [("final samples", back)] + [(f"stored population {t}", q) for t, q in enumerate(hback.sample_history)]
                for what, q in sets:
                    n += 1
                    if list(q.parameters) != list(names[dims]):
                        verdict.violation(f"CachedCoherent|reloaded|parameters", f"{what} reloads with parameters {q.parameters} instead of {names[dims]}", scen)
                        continue
                    coh = smcdrv.coherent(smcdrv.popdict(q), r["prob"], r["flow"], 64)
                    if not all(v is None or v for v in coh):
                        verdict.violation(f"CachedCoherent|reloaded|{'flat' if flat else 'nested'}|{cfg['ns']}",
                                          f"{what} read back from HDF5 ({'flat' if flat else 'nested'} layout, parameters {names[dims]}): "
                                          f"stored [log-likelihood, log-prior, log-proposal] equal to the functions at the row's own coordinates: {coh}", scen)
        finally:
            cleanup(wd)
    return {"reloaded_sets_checked": n}


def corpus_resume_schedule(tier, seed, rnd):
    """C06: a run interrupted and resumed with *other* schedule options (a minimum step stated by the
    resuming call): the steps the resumed call takes obey the options of that call."""
    import smcdrv
    specs = []
    n_cfg = 8 if tier == "quick" else 80
    k = 0
    for i in range(n_cfg):
        c = dict(N=rnd.choice([8, 16]), width=rnd.choice([0.02, 0.05, 0.1]), seed=seed * 91 + i, every=1, mcmc_steps=1,
                 sampler="minipcn_smc", rng_route=rnd.choice(["sample", "init"]), precond="none",
                 min_step=rnd.choice([None, None, 0.0, 0.01]))
        ref = smcdrv.run_smc(dict(c))
        nlike = ref["tracer"].k
        if nlike < 4:
            continue
        for fk in sorted(rnd.sample(range(3, nlike + 1), min(3 if tier == "quick" else 8, nlike - 2))):
            specs.append(_mk(k, "resume", {"cfg": c, "fault_k": fk, "route": rnd.choice(["bytes", "dict", "path"]),
                                           "min_step_resume": rnd.choice([0.2, 0.35, 0.5])})); k += 1
    return [dict(x, id="m" + x["id"]) for x in specs]


def corpus_kernel_temperature(tier, seed, rnd):
    """C05: every stage of a run hands its kernel the target at the stage's own temperature - ordinary
    runs, fixed schedules, and schedules cut by max_n_steps below 1 followed by the final enlargement."""
    specs = []
    k = 0
    for i in range(24 if tier == "quick" else 400):
        c = dict(N=[6, 8, 12][i % 3], width=[0.05, 0.1, 0.3, 1.0][i % 4], seed=seed * 19 + i, mcmc_steps=1,
                 sampler=["minipcn_smc", "minipcn_smc", "emcee_smc"][i % 3], precond=["none", "default", "affine"][(i // 3) % 3])
        kind = i % 4
        if kind == 0 and c["sampler"] == "minipcn_smc":
            c.update(min_step=[1e-3, 0.05][(i // 4) % 2], max_n_steps=[1, 2, 3][(i // 8) % 3])
        elif kind == 1:
            c.update(adaptive=False, n_steps=[1, 2, 3][(i // 4) % 3])
        elif kind == 2 and c["sampler"] == "minipcn_smc":
            c.update(max_n_steps=[2, 4][(i // 4) % 2])
        if i % 2 == 0:
            c["n_final"] = c["N"] + [3, c["N"]][(i // 2) % 2]
            if i % 4 == 0:
                c["n_final_steps"] = 2
        specs.append(_mk(k, "single", {"cfg": c})); k += 1
    return [dict(x, id="t" + x["id"]) for x in specs]


def corpus_file(tier, seed, rnd):
    """C12: library file callback, cadence 1..4, fault at each likelihood / prior call."""
    import smcdrv
    specs = []
    k = 0
    n_cfg = 8 if tier == "quick" else 80
    cfgs = []
    for i in range(n_cfg):
        c = dict(N=rnd.choice([4, 8]), width=rnd.choice([0.2, 0.5, 1.0]), seed=seed * 77 + i,
                 every=rnd.choice([None, 1, 2, 3, 4]), mcmc_steps=rnd.choice([1, 2]),
                 sampler=rnd.choice(["minipcn_smc"] * 3 + ["emcee_smc"]),
                 precond=rnd.choice(["default", "none"]))
        r = rnd.random()
        if r < 0.3:
            c.update(adaptive=False, n_steps=rnd.choice([1, 2, 3, 5, 6]))
        elif r < 0.5 and c["sampler"] == "minipcn_smc":
            c.update(max_n_steps=rnd.choice([2, 4]))
        if rnd.random() < 0.4:
            c["n_final"] = c["N"] * 2
        cfgs.append(c)
    # an earlier fit + run and a refit inside the same auto_checkpoint context precede the measured run
    for j, c in enumerate(list(cfgs)):
        if j % 2 == 0 and c.get("every") is not None:
            # (cadence 1 or 2: an interruption then finds a checkpoint of the measured run to resume from)
            cfgs.append(dict(c, ctx="refit", seed=c["seed"] + 1000, explicit_none=(j % 4 == 0), every=[1, 2][(j // 2) % 2]))
    for c in cfgs:
        specs.append(_mk(k, "aspire_single", {"cfg": c})); k += 1
        wd = workdir("probe")
        try:
            cc = dict(c); cc["path"] = str(wd / "p.h5")
            ref = smcdrv.run_aspire(cc)
        finally:
            cleanup(wd)
        nlike, nprior = ref["tracer"].k, ref["tracer"].kp
        ks = list(range(1, nlike + 1))
        lim = 8 if tier == "quick" else 30
        if len(ks) > lim:
            ks = sorted(rnd.sample(ks, lim))
        for fk in ks:
            pp = {"cfg": c, "fault_k": fk, "fault_on": "like"}
            if (k + fk) % 3 == 0:
                pp["implicit_ckpt"] = True
            elif rnd.random() < 0.4:
                pp["every_resume"] = rnd.choice([1, 2, 3])
            specs.append(_mk(k, "aspire_resume", pp)); k += 1
        kps = sorted(rnd.sample(range(1, nprior + 1), min(nprior, 3 if tier == "quick" else 10)))
        for fk in kps:
            specs.append(_mk(k, "aspire_resume", {"cfg": c, "fault_k": fk, "fault_on": "prior"})); k += 1
    # sampler-level runs with the harness callback (checkpoint events observed directly)
    for i in range(40 if tier == "quick" else 600):
        c = dict(N=rnd.choice([4, 8]), width=rnd.choice([0.2, 0.5, 1.0]), seed=seed * 13 + i,
                 every=rnd.choice([1, 2, 3, 4, 5]), mcmc_steps=1)
        if rnd.random() < 0.5:
            c.update(adaptive=False, n_steps=rnd.choice([1, 2, 3, 4, 5, 6, 8]))
        if rnd.random() < 0.3:
            c["n_final"] = c["N"] + 3
        specs.append(_mk(k, "single", {"cfg": c})); k += 1
    return specs


def corpus_c20(tier, seed, rnd):
    specs = corpus_repeat(tier, seed, rnd)
    specs += corpus_calls(tier, seed, rnd, n=40 if tier == "quick" else 600, repeat=True)
    k = 0
    for backend in ("zuko", "flowjax"):
        for dtype in ("float32", "float64"):
            for sd in ([1, 2] if tier == "quick" else [1, 2, 3, 4, 5, 6]):
                specs.append({"id": f"f{k:04d}", "builder": "flow_pair",
                              "params": {"cfg": {"backend": backend, "dtype": dtype, "seed": sd + seed,
                                                 "epochs": 2, "seed_type": ["int", "np.int64", "np.uint32"][k % 3]}}})
                k += 1
            # a proposal written to a file once and read back for each of the two runs
            specs.append({"id": f"f{k:04d}", "builder": "flow_pair",
                          "params": {"cfg": {"backend": backend, "dtype": dtype, "seed": 7 + seed, "epochs": 1, "from_file": True}}})
            k += 1
    return specs


def corpus_repeat(tier, seed, rnd):
    specs = []
    n = 40 if tier == "quick" else 600
    for i in range(n):
        smp = rnd.choice(["minipcn_smc", "minipcn_smc", "emcee_smc"])
        c = dict(N=rnd.choice([4, 8]), width=rnd.choice([0.3, 0.5, 1.0]), seed=seed * 31 + i, sampler=smp,
                 rng_route=rnd.choice(["sample", "init"]), every=rnd.choice([None, 1]),
                 precond=rnd.choice(["none", "default", "affine"]))
        if rnd.random() < 0.3:
            c["n_final"] = c["N"] * 2
        pp = {"cfg": c}
        if smp == "minipcn_smc":
            # every array namespace for every way of supplying the generator
            c["ns"] = ["numpy", "torch", "jax"][i % 3]
            c["rng_route"] = ["init", "sample"][(i // 3) % 2]
            if c["ns"] != "numpy":
                c["dtype"] = "float64"
        if i % 3 == 2:
            pp["same_object"] = True
            c["rng_route"] = "init" if i % 2 else "sample"
        specs.append(_mk(i, "repeat", pp))
    return specs


# --------------------------------------------------------------------------
# Design-level exhaustive runs (E1)
# --------------------------------------------------------------------------

def e1_tempering(tier):
    r = run_tlc("MC_Tempering", "MC_Tempering.cfg", workers=16, coverage=False)
    require_tlc_ok(r, "MC_Tempering")
    return r


def extract_payload_fields():
    """Model extraction: which live fields of the sampler a real checkpoint payload carries, and which
    of them a real restore_from_checkpoint sets from the payload (observed on the working tree)."""
    import numpy as np
    import smcdrv
    r = smcdrv.run_smc(dict(N=6, every=1, max_n_steps=3, width=0.3, seed=5, mcmc_steps=1, n_final=9))
    states = [e["_state"] for e in r["tracer"].ev if e["t"] == "ckpt"]
    if r["status"] != "ok" or not states:
        raise MachineryError(f"extraction run failed: {r['status']} {r['exc']}")
    st = pickle.loads(r["tracer"].payloads[0])          # a mid-run payload, as serialised
    meta = st.get("meta") or {}
    payload = set()
    if st.get("samples") is not None:
        payload |= {"pop", "size"}
    if st.get("iteration") is not None:
        payload.add("iter")
    if meta.get("beta") is not None:
        payload.add("beta")
    if st.get("history") is not None:
        payload.add("hist")
    if st.get("rng_state") is not None:
        payload.add("rng")
    if meta.get("min_step") is not None:
        payload.add("minStep")
    # restore on a fresh sampler with another generator
    Cls = smcdrv.sampler_class("minipcn_smc")
    xp = smcdrv.get_xp("numpy")
    prob = smcdrv.Problem(2, 0.3, 1.0)
    tr = smcdrv.Tracer(prob, smcdrv.IdTable())
    fresh = Cls(log_likelihood=tr.log_likelihood, log_prior=tr.log_prior, dims=2,
                prior_flow=smcdrv.make_flow(dict(smcdrv.DEFAULT), prob, xp), xp=xp,
                parameters=["x_0", "x_1"], rng=np.random.default_rng(999))
    before_rng = json.dumps(fresh.rng.bit_generator.state, default=str)
    samples, beta, it = fresh.restore_from_checkpoint(pickle.loads(r["tracer"].payloads[0]))
    restored = set()
    if np.array_equal(smcdrv.to_np(samples.x), smcdrv.to_np(st["samples"].x)):
        restored |= {"pop", "size"}
    if it == st.get("iteration"):
        restored.add("iter")
    if beta == meta.get("beta"):
        restored.add("beta")
    H = getattr(fresh, "history", None)
    if H is not None and st.get("history") is not None and list(map(float, H.beta)) == list(map(float, st["history"].beta)) \
            and len(H.sample_history) == len(st["history"].sample_history):
        restored.add("hist")
    if json.dumps(fresh.rng.bit_generator.state, default=str) != before_rng and \
            json.dumps(fresh.rng.bit_generator.state, default=str) == json.dumps(st.get("rng_state"), default=str):
        restored.add("rng")
    if meta.get("min_step") is not None and any(getattr(fresh, a, None) == meta.get("min_step") for a in vars(fresh)):
        restored.add("minStep")
    return sorted(payload), sorted(restored & payload)


def apalache_inductive(verdict, tier, seed):
    """Unbounded safety of the adaptive controller: Apalache discharges the inductive invariant of
    spec/apalache/TemperingInd.tla for symbolic K, tolerance, floor and cap (thorough tier)."""
    import subprocess
    if tier == "quick":
        return {}
    wd = workdir("apalache")
    obligations = [("Init => IndInv", ["--init=Init", "--inv=IndInv", "--length=0"]),
                   ("IndInv /\\ Next => IndInv'", ["--init=IndInit", "--inv=IndInv", "--length=1"]),
                   ("IndInv => Safety", ["--init=IndInit", "--inv=Safety", "--length=0"])]
    done = []
    try:
        for name, args in obligations:
            p = subprocess.run(["apalache-mc", "check", "--cinit=ConstInit", *args, f"--out-dir={wd}", "TemperingInd.tla"],
                               cwd=common.SPEC / "apalache", capture_output=True, text=True, timeout=1800)
            ok = "The outcome is: NoError" in p.stdout
            done.append({"obligation": name, "discharged": ok})
            if not ok:
                raise MachineryError(f"Apalache did not discharge '{name}':\n" + p.stdout[-1500:])
    finally:
        cleanup(wd)
    return {"apalache_inductive_invariant": done}


def e1_smcrun(tier):
    """SMCRun.tla exhaustive, with PayloadFields / RestoredFields extracted from the working tree."""
    payload, restored = extract_payload_fields()
    wd = workdir("smcrun-e1")
    try:
        q = lambda xs: "{" + ", ".join(f'"{x}"' for x in xs) + "}"
        (wd / "SMCRun.tla").write_text((common.SPEC / "SMCRun.tla").read_text())
        (wd / "MC_SMCRunX.tla").write_text(
            "---- MODULE MC_SMCRunX ----\nEXTENDS SMCRun\n"
            "MCArgs == { [every |-> e, nfinal |-> f, maxn |-> m, path |-> p] : e \\in 0..3, f \\in {0, 4}, m \\in {0, 2}, p \\in BOOLEAN }\n"
            'MCRoutes == {"bytes", "dict", "path", "file"}\n'
            f"MCPayload == {q(payload)}\nMCRestored == {q(restored)}\n====\n")
        deep = tier != "quick"
        (wd / "MC_SMCRunX.cfg").write_text(
            "SPECIFICATION Spec\nCONSTANTS\n"
            f"  K = {5 if deep else 4}\n  MaxIter = {4 if deep else 3}\n  ArgSet <- MCArgs\n  MaxCrashes = 2\n  Routes <- MCRoutes\n"
            "  PayloadFields <- MCPayload\n  RestoredFields <- MCRestored\n  ReappendOnResume = FALSE\n  CapAwareResume = TRUE\n"
            "VIEW View\n" + "".join(f"INVARIANT {i}\n" for i in (
                "HistoryFaithful", "EvidenceTerms", "EvidenceSum", "EvidenceIndependent", "ScheduleOK", "CadenceExact",
                "FileHoldsLatest", "ConfigAndFlowPresent", "Loadable", "ResumeRestoresState", "ResumeDeterministic")))
        r = run_tlc("MC_SMCRunX", "MC_SMCRunX.cfg", workers=16, specdir=wd, metaname="smcrun-e1", timeout=3000)
        require_tlc_ok(r, "MC_SMCRunX")
        r.extracted = {"PayloadFields": payload, "RestoredFields": restored}
        return r
    finally:
        cleanup(wd)


def e3_blob(verdict, tier, seed):
    """Blob.tla exhaustive + every maximal behaviour replayed on the real dump_state."""
    import io
    import re
    import h5py
    import numpy as np
    from aspire.utils import dump_state
    from aspire.samplers.base import Sampler
    depth = 5 if tier == "quick" else 7
    sizes = "{1, 2, 3}" if tier == "quick" else "{1, 2, 3, 4}"
    wd = workdir("blob")
    try:
        cfg = wd / "MC_Blob_run.cfg"
        cfg.write_text(f"SPECIFICATION Spec\nCONSTANTS\n  Sizes = {sizes}\n  Depth = {depth}\n  ResizeOnChange = TRUE\n"
                       "INVARIANT BlobExact\nINVARIANT NeverRaises\nCONSTRAINT Export\n")
        r = run_tlc("Blob", str(cfg), workers=1, metaname="blob")
        require_tlc_ok(r, "Blob")
        if r.violated:
            verdict.model_drift(f"Blob.tla: {r.violated} violated at design level")
        behs = []
        for m in re.finditer(r'<<\s*"BEHAVIOUR"', r.out):
            pz = common._P(r.out[m.start():])
            behs.append(list(pz.value()[1]))
        if not behs:
            raise MachineryError("Blob.tla exported no behaviours")
        rng = np.random.default_rng(seed)
        base = 257
        bad = 0
        smp = Sampler.__new__(Sampler)
        for beh in behs:
            with h5py.File(f"blob-{os.getpid()}.h5", "w", driver="core", backing_store=False) as fp:
                lastb = None
                for i, n in enumerate(beh):
                    state = {"iteration": i, "payload": rng.bytes(base * n + int(rng.integers(0, 7)))}
                    if i % 2 == 0:
                        dump_state(state, fp, path="checkpoint", dsetname="state")
                    else:
                        smp.save_checkpoint_to_hdf(state, fp, path="checkpoint", dsetname="state")
                    lastb = pickle.dumps(state, protocol=pickle.HIGHEST_PROTOCOL)
                    got = fp["checkpoint"]["state"][...].tobytes()
                    ok = got == lastb
                    if ok:
                        try:
                            ok = pickle.loads(got) == state
                        except Exception:
                            ok = False
                    if not ok:
                        bad += 1
                        verdict.violation("BlobExact|size-sequence",
                                          f"BlobExact: after writing payload sizes {beh[:i+1]} (relative) the dataset is not byte-for-byte the last pickle (len {len(got)} vs {len(lastb)})",
                                          replay={"builder": "blob", "params": {"sizes": beh[:i + 1]}})
                        break
        return {"blob_behaviours_replayed": len(behs), "blob_mismatches": bad,
                "blob_states": r.distinct, "blob_transitions": r.generated}
    finally:
        cleanup(wd)


ROUTING_CLASSES = {
    "MiniPCNSMC": ("aspire.samplers.smc.minipcn", "MiniPCNSMC", "smc"),
    "EmceeSMC": ("aspire.samplers.smc.emcee", "EmceeSMC", "emcee_smc"),
    "MiniPCN": ("aspire.samplers.mcmc", "MiniPCN", "minipcn"),
    "Emcee": ("aspire.samplers.mcmc", "Emcee", "emcee"),
}


def e3_routing(verdict, tier, seed):
    """Routing.tla with parameter sets extracted from the working tree (inspect.signature),
    model-checked; every (class, route) case replayed on the real samplers."""
    import importlib
    import inspect
    import re
    import numpy as np
    import smcdrv
    import gendrv
    import emcee as emcee_stub
    import minipcn as minipcn_stub
    import orng as orng_stub
    import verifflow_mod
    sig = {}
    for name, (mod, cls, _) in ROUTING_CLASSES.items():
        C = getattr(importlib.import_module(mod), cls)
        ip = inspect.signature(C.__init__).parameters
        sp = inspect.signature(C.sample).parameters
        sig[name] = dict(init="rng" in ip, sample="rng" in sp,
                         kwargs=any(q.kind == q.VAR_KEYWORD for q in sp.values()))
    def fn(key):
        return "(" + " @@ ".join(f'"{n}" :> {"TRUE" if sig[n][key] else "FALSE"}' for n in sig) + ")"
    wd = workdir("routing")
    try:
        (wd / "MC_Routing.tla").write_text(
            "---- MODULE MC_Routing ----\nEXTENDS Routing\n"
            f"MCClasses == {{{', '.join(chr(34) + n + chr(34) for n in sig)}}}\n"
            f"MCInit == {fn('init')}\nMCSample == {fn('sample')}\nMCKw == {fn('kwargs')}\n"
            'MCKeeps == {"MiniPCNSMC"}\nMCUses == {"MiniPCN"}\nMCPrivate == {"EmceeSMC", "Emcee"}\n====\n')
        (wd / "Routing.tla").write_text((common.SPEC / "Routing.tla").read_text())
        (wd / "MC_Routing.cfg").write_text(
            "SPECIFICATION Spec\nCONSTANTS\n  Classes <- MCClasses\n  InitHasRng <- MCInit\n  SampleHasRng <- MCSample\n"
            "  SampleHasKwargs <- MCKw\n  KeepsInitRng <- MCKeeps\n  SampleUsesRng <- MCUses\n  KernelPrivate <- MCPrivate\n"
            "INVARIANT UserRngUsedExceptPrivate\nCONSTRAINT Export\n")
        r = run_tlc("MC_Routing", "MC_Routing.cfg", workers=1, specdir=wd, metaname="routing")
        require_tlc_ok(r, "MC_Routing")
        for inv in r.violated:
            verdict.model_drift(f"Routing.tla: {inv} violated at design level with the extracted signatures {sig}")
        cases = set()
        for m in re.finditer(r'<<\s*"CASE"', r.out):
            v = common._P(r.out[m.start():]).value()
            cases.add(tuple(v[1:]))
    finally:
        cleanup(wd)
    replayed = 0
    for (cls, route, outcome, resg, kerg) in sorted(cases):
        if route == "absent":
            continue
        mod, cname, stype = ROUTING_CLASSES[cls]
        C = getattr(importlib.import_module(mod), cname)
        ids = smcdrv.IdTable()
        prob = smcdrv.Problem(2, 0.5, 1.0)
        tr = smcdrv.Tracer(prob, ids)
        flow = smcdrv.make_flow(dict(smcdrv.DEFAULT), prob, None)
        urng = smcdrv.LoggingRNG(np.random.default_rng(seed + 5), tr)
        minipcn_stub.reset(); emcee_stub.reset()
        minipcn_stub.OBSERVER = tr.kernel_event; emcee_stub.OBSERVER = tr.kernel_event
        minipcn_stub.MAX_SAMPLE_CALLS = emcee_stub.MAX_SAMPLE_CALLS = None
        orng_stub.CREATED.clear()
        real = "ok"
        xp = smcdrv.get_xp("numpy")
        try:
            skw = {"n_steps": 1} if cls in ("MiniPCNSMC",) else ({"nsteps": 1, "progress": False} if cls == "EmceeSMC" else None)
            if route == "top":
                from aspire import Aspire
                a = Aspire(log_likelihood=tr.log_likelihood, log_prior=tr.log_prior, dims=2,
                           parameters=["x_0", "x_1"], flow=flow, xp=xp)
                kw = dict(n_samples=6, sampler=stype, rng=urng)
                if skw is not None:
                    kw["sampler_kwargs"] = skw
                elif cls == "MiniPCN":
                    kw["n_steps"] = 2
                elif cls == "Emcee":
                    kw["nsteps"] = 2
                a.sample_posterior(**kw)
            else:
                ikw = {"rng": urng} if route == "init" else {}
                smp = C(log_likelihood=tr.log_likelihood, log_prior=tr.log_prior, dims=2, prior_flow=flow,
                        xp=xp, parameters=["x_0", "x_1"], **ikw)
                kw = {"rng": urng} if route == "sample" else {}
                if skw is not None:
                    kw["sampler_kwargs"] = skw
                elif cls == "MiniPCN":
                    kw["n_steps"] = 2
                elif cls == "Emcee":
                    kw["nsteps"] = 2
                smp.sample(6, **kw)
        except TypeError as ex:
            real = "type_error"
        except Exception as ex:
            real = f"raised:{type(ex).__name__}"
        finally:
            minipcn_stub.OBSERVER = None; emcee_stub.OBSERVER = None; verifflow_mod.OBSERVER = None
        replayed += 1
        kb = [e for e in tr.ev if e["t"] == "kbegin"]
        kernel_user = bool(kb) and all(e["_rng"] is urng for e in kb)
        resample_user = urng.nchoice > 0
        scen = {"builder": "routing_case", "params": {"cls": cls, "route": route}}
        if (outcome == "type_error") != (real == "type_error"):
            verdict.model_drift(f"Routing: {cls}/{route}: model says {outcome}, code says {real}")
            continue
        if real.startswith("raised"):
            verdict.violation(f"NeverRaises|routing|{cls}|{route}", f"{cls} with rng supplied by route {route}: {real}", scen)
            continue
        if real != "ok":
            continue
        if not kernel_user:
            what = f"UserRngUsed: {cls}: a generator supplied through route '{route}' is accepted but the kernel never draws from it"
            verdict.violation(f"UserRngUsed|{cls}|kernel", what, scen)
            if kerg == "user":
                verdict.model_drift(f"Routing: {cls}/{route}: model predicted the user's generator in the kernel")
        elif kerg != "user":
            verdict.model_drift(f"Routing: {cls}/{route}: kernel uses the user's generator but the model predicted {kerg}")
        if cls in ("MiniPCNSMC", "EmceeSMC"):
            if not resample_user:
                verdict.violation(f"UserRngUsed|{cls}|resample", f"UserRngUsed: {cls}: generator supplied through '{route}' is not used for resampling", scen)
            elif resg != "user":
                verdict.model_drift(f"Routing: {cls}/{route}: resampling uses the user's generator but the model predicted {resg}")
        if orng_stub.CREATED and cls == "MiniPCNSMC":
            verdict.violation(f"UserRngUsed|{cls}|default-created", f"{cls}: a default generator was created although the user supplied one via '{route}'", scen)
    return {"routing_cases_replayed": replayed, "routing_signatures": sig,
            "tlc_states": r.distinct, "tlc_transitions": r.generated}


def signature(clause, g, ri):
    cfg = g["cfg"]
    run = g["runs"][ri - 1] if ri - 1 < len(g["runs"]) else {}
    feats = [clause, cfg["sampler"]]
    if clause in ("NeverRaises",):
        feats.append((run.get("exc") or "").split(":")[0])
    if clause in ("NeverRaises", "StrictlyIncreasing", "EndsAtOneOrCap", "FixedExactlyN", "CapHonoured",
                  "FloorHonoured", "InUnit", "AdaptiveMaximal"):
        feats.append("adaptive" if cfg["adaptive"] else "fixed")
        if cfg["max_n_steps"]:
            feats.append("max_n_steps")
        if cfg["has_min_step"]:
            feats.append("min_step")
    if clause in ("ResumeDeterministic", "RunDeterministic", "UserRngUsed"):
        feats.append("rng_route=" + str(cfg.get("rng_route")))
        if cfg["max_n_steps"]:
            feats.append("max_n_steps")
    if clause.startswith("HistoryFaithful") or clause in ("CountExact",):
        feats.append("resumed" if run.get("resumed") else "fresh")
    if clause == "PrecisionKept":
        feats.append(f"{cfg['ns']}/{cfg['dtype']}")
    return "|".join(str(f) for f in feats)


def run_check(prop, tier, seed, corpus_fn, e1_fns, note_rule, replay=None, extra_owner=(), extra_fn=None):
    t0 = time.time()
    rnd = random.Random(seed * 9176 + 17)
    verdict = Verdict(prop)
    tlc_states = tlc_trans = 0
    e1_info = []
    for fn in e1_fns:
        r = fn(tier)
        tlc_states += r.distinct
        tlc_trans += r.generated
        e1_info.append({"module": r.cmd[-1], "distinct_states": r.distinct, "states_generated": r.generated,
                        "wall_s": round(r.wall, 1), "violated": r.violated,
                        "constants_extracted_from_code": getattr(r, "extracted", None)})
        for inv in r.violated:
            verdict.model_drift(f"design model {r.cmd[-1]}: invariant {inv} violated (design-level only; not confirmed on code)")
    only_extra = bool(replay) and replay.get("builder") in ("routing_case", "blob")
    if only_extra:
        specs = []
    elif replay:
        specs = [replay]
    else:
        specs = corpus_fn(tier, seed, rnd)
    tb = time.time()
    groups = build_groups(specs) if specs else []
    print(f"[{prop}] built {len(groups)} groups in {time.time()-tb:.1f}s", flush=True)
    errs = [g for g in groups if "error" in g]
    if errs:
        raise MachineryError(f"{len(errs)} groups failed to build, first:\n{errs[0]['error']}")
    # self-test corruptions of some accepted single groups
    st = []
    tb = time.time()
    verdicts, s1, t1 = validate(groups, prop) if groups else ({}, 0, 0)
    print(f"[{prop}] TLC validated {len(groups)} traces in {time.time()-tb:.1f}s", flush=True)
    tlc_states += s1
    tlc_trans += t1
    owned = OWNER[prop] | set(extra_owner)
    clean_singles = [g for g in groups if len(g["runs"]) == 1 and g["runs"][0]["status"] == "ok" and not verdicts[g["id"]]]
    selftest = {"ran": 0, "rejected": 0, "missed": []}
    if not replay:
        cands = []
        for g in clean_singles[:40]:
            cands += corruptions(g)
        byname = {}
        for name, clause, cg in cands:
            byname.setdefault(name, []).append((clause, cg))
        chosen = [(n, v[0][0], v[0][1]) for n, v in byname.items()]
        if chosen:
            v2, s2, t2 = validate([c[2] for c in chosen], prop + "-selftest")
            tlc_states += s2; tlc_trans += t2
            for name, clause, cg in chosen:
                selftest["ran"] += 1
                names = {n for (_, n) in v2[cg["id"]]}
                if clause in names or (clause == "CadenceExact" and "CadenceExact_final" in names):
                    selftest["rejected"] += 1
                else:
                    selftest["missed"].append(name)
        if selftest["missed"]:
            raise MachineryError(f"binding self-test: corrupted traces accepted: {selftest['missed']}")
    # ---- judge
    n_runs = sum(len(g["runs"]) for g in groups)
    n_final = sum(1 for g in groups for r in g["runs"] if r["status"] == "ok")
    n_trunc = sum(1 for g in groups for r in g["runs"] if r["status"] == "truncated")
    distinct = set()
    drift = 0
    drift_seen = {}
    for g in groups:
        vs = verdicts[g["id"]]
        for (ri, clause) in sorted(vs):
            if clause in owned:
                verdict.violation(signature(clause, g, ri),
                                  f"{clause} failed on a real run (group {g['id']}, run {ri}: {g['runs'][ri-1]['role']}, status {g['runs'][ri-1]['status']} {g['runs'][ri-1]['exc']})",
                                  replay=g.get("spec"))
            elif clause.startswith("conf_"):
                drift += 1
                drift_seen.setdefault(clause, g["id"])
        for r in g["runs"]:
            if r["status"] == "ok":
                fin = r["ev"][-1]
                if fin.get("iterations", 0) >= 2:
                    distinct.add(note_rule(g, r, fin))
    for clause, gid in sorted(drift_seen.items()):
        verdict.model_drift(f"conformance clause {clause} rejected real runs (first: group {gid}); the implementation-shaped model does not describe this tree there")
    extra_cov = {}
    if extra_fn is not None and (only_extra or not replay):
        extra_cov = extra_fn(verdict, tier, seed) or {}
        tlc_states += extra_cov.get("blob_states", 0) + extra_cov.get("tlc_states", 0)
        tlc_trans += extra_cov.get("blob_transitions", 0) + extra_cov.get("tlc_transitions", 0)
    rc, n_unlisted, known = verdict.finish()
    samples = []
    for g in groups[:2]:
        gg = {k: v for k, v in g.items() if k != "spec"}
        samples.append({"group": g["id"], "cfg": g["cfg"], "scenario": g.get("spec"),
                        "events_first_run": [e["t"] for e in g["runs"][0]["ev"]][:60],
                        "verdict": sorted(map(list, verdicts[g["id"]]))})
    cov = {
        "states": int(tlc_states), "transitions": int(tlc_trans),
        "traces_validated_against_impl": int(n_runs),
        "samples": samples,
        "evaluations": int(n_runs), "distinct_nontrivial": int(len(distinct)),
        "rule": "distinct (sampler, namespace, schedule options, iteration count, checkpoint cadence, n_final, role) tuples of completed real runs with >= 2 iterations",
        "exhaustive": False,
        "design_level": e1_info,
        "groups": len(groups), "completed_runs": n_final, "truncated_runs": n_trunc,
        "conformance_rejections": drift,
        "binding_selftest": selftest,
        "known_findings_hit": known,
    }
    cov.update(extra_cov)
    write_evidence(prop, tier, seed, time.time() - t0, cov, STD_ASSUMPTIONS, n_unlisted)
    return rc


def rule_default(g, r, fin):
    c = g["cfg"]
    return (c["sampler"], c["ns"], c["dtype"], c["adaptive"], c["n_steps"], c["has_min_step"], c["max_n_steps"],
            c["n_final"], c["every"], c["precond"], fin["iterations"], r["role"], g["cfg"].get("route", ""))


CHECKS = {
    "C06": dict(corpus=lambda t, s, r: corpus_schedule(t, s, r) + corpus_rerun(t, s, r) + corpus_resume_schedule(t, s, r)
                # the schedule of a run that was interrupted and resumed (every route) is a schedule too
                # (whitening a population that has collapsed onto one particle yields NaN coordinates and the run
                #  ends in "Log proposal contains NaN values": a property of the whitening, outside this property)
                + [dict(x, id="r" + x["id"]) for x in corpus_resume(t, s, r)
                   if x["params"]["cfg"]["precond"] in ("none", "default")][: (100 if t == "quick" else 2000)],
                e1=[e1_tempering],
                extra=lambda v, t, s: dict(apalache_inductive(v, t, s) or {}, **__import__("e3_controller").replay(v, t, s, "C06"))),
    "C07": dict(corpus=lambda t, s, r: corpus_schedule(t, s, r) + corpus_rerun(t, s, r), e1=[e1_tempering],
                extra=lambda v, t, s: __import__("e3_controller").replay(v, t, s, "C07")),
    "C08": dict(corpus=lambda t, s, r: corpus_general(t, s, r, 200 if t == "quick" else 3000)
                + [dict(x, id="v" + x["id"]) for x in corpus_variants(t, s, r)]
                + [dict(x, id="r" + x["id"]) for x in corpus_resume(t, s, r)][: (120 if t == "quick" else 3000)]
                + corpus_rerun(t, s, r),
                e1=[e1_smcrun]),
    "C09": dict(corpus=lambda t, s, r: corpus_general(t, s, r, 150 if t == "quick" else 3000) + corpus_kernel_temperature(t, s, r), e1=[],
                extra=lambda v, t, s: __import__("e3_resample").replay(v, t, s)),
    "C10": dict(corpus=lambda t, s, r: corpus_general(t, s, r) + corpus_calls(t, s, r)
                # populations restored from a file (fit ; run ; refit ; run in one context, then resume_from_file)
                + [dict(x, id="f" + x["id"]) for x in corpus_file(t, s, r) if x["params"]["cfg"].get("ctx")][: (40 if t == "quick" else 600)],
                e1=[e1_smcrun],
                extra=lambda v, t, s: dict(__import__("e3_initialdraw").replay(v, t, s, "C10"), **reload_route(v, t, s))),
    "C11": dict(corpus=lambda t, s, r: corpus_resume(t, s, r)
                # (minipcn kernel only: the emcee kernel keeps a private random state that no checkpoint carries)
                + [dict(x, id="f" + x["id"]) for x in corpus_file(t, s, r)
                   if x["params"]["cfg"].get("ctx") and x["params"]["cfg"].get("sampler") == "minipcn_smc"][: (40 if t == "quick" else 600)],
                e1=[e1_smcrun]),
    "C12": dict(corpus=lambda t, s, r: corpus_file(t, s, r) + [dict(x, id="r" + x["id"]) for x in corpus_resume(t, s, r)][: (150 if t == "quick" else 3000)],
                e1=[e1_smcrun], extra=e3_blob),
    "C17": dict(corpus=lambda t, s, r: corpus_general(t, s, r) + corpus_calls(t, s, r)
                # runs left through an exception raised in a user call, and their resumed continuations
                + [dict(x, id="r" + x["id"]) for x in corpus_resume(t, s, r)][: (80 if t == "quick" else 2000)],
                e1=[e1_smcrun],
                extra=lambda v, t, s: __import__("e3_initialdraw").replay(v, t, s, "C17")),
    "C20": dict(corpus=corpus_c20, e1=[], extra=e3_routing),
    "C18": dict(corpus=lambda t, s, r: corpus_general(t, s, r, 200 if t == "quick" else 3000)
                + [dict(x, id="r" + x["id"]) for x in corpus_resume(t, s, r)][: (150 if t == "quick" else 3000)]
                + corpus_rerun(t, s, r), e1=[e1_smcrun]),
}


def main(prop, tier, seed, replay_path=None):
    spec = CHECKS[prop]
    replay = None
    if replay_path:
        replay = json.loads(open(replay_path).read())["scenario"]
    return run_check(prop, tier, seed, spec["corpus"], spec["e1"], rule_default, replay=replay,
                     extra_owner=spec.get("extra_owner", ()), extra_fn=spec.get("extra"))
