"""Entry point of /verif/check."""
import argparse
import logging
import sys
import traceback

import common


def dispatch(prop):
    if prop in ("C06", "C07", "C08", "C09", "C10", "C11", "C12", "C17", "C18", "C20"):
        import smc_checks
        return smc_checks.main
    if prop in ("C14",):
        import lifecycle_check
        return lifecycle_check.main
    if prop in ("C19",):
        import contexts_check
        return contexts_check.main
    if prop in ("C16", "C15"):
        import sampleset_check
        return sampleset_check.main
    if prop == "C02":
        import e3_weights
        return e3_weights.main
    if prop == "C05":
        import e3_target
        return e3_target.main
    if prop == "C04":
        import e3_pipeline
        return e3_pipeline.main
    if prop == "C13":
        import e3_persist
        return e3_persist.main
    if prop == "C03":
        import e3_density
        return e3_density.main
    raise SystemExit(f"unknown property {prop}")


def main():
    ap = argparse.ArgumentParser()
    ap.add_argument("prop")
    ap.add_argument("--tier", default=None)
    ap.add_argument("--replay", default=None)
    a = ap.parse_args()
    tier, seed = common.tier_and_seed(a.tier)
    logging.disable(logging.CRITICAL)
    try:
        fn = dispatch(a.prop)
        rc = fn(a.prop, tier, seed, a.replay)
    except common.MachineryError as ex:
        print(f"MACHINERY-FAILURE property={a.prop}: {ex}")
        sys.exit(2)
    except Exception:
        print(f"MACHINERY-FAILURE property={a.prop}:")
        traceback.print_exc()
        sys.exit(2)
    sys.exit(rc)


if __name__ == "__main__":
    main()
