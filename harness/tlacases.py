"""Spec -> code for the exact-arithmetic reference models: TLC enumerates the case space of a
module (laws checked as ASSUMEs over the whole set), exports every case with the
specification's expected outcome as JSON, and the driver replays each case on the real code."""
from __future__ import annotations

import json
import re
import time

import common
from common import MachineryError, cleanup, require_tlc_ok, run_tlc, workdir


LAWS = {
    "Weights": ["EssRange", "RelVarNonNeg", "PermInv", "ShiftLaw", "UniformEss"],
    "WeightsNear": ["TwoPassIsOnePass", "SpreadNonNeg", "ZeroIffUniform", "PermInvNear"],
    "Target": ["ZeroPriorMinusInf", "NanToMinusInf", "FiniteIffAllFinite", "TargetDef"],
    "Resample": ["ProbsSumToOne", "ProbsPositive", "Monotone", "SameBetaUniform", "DrawnRowsLive"],
    "InitialDraw": ["ExactlyN", "OnlyValid", "DrawOrder", "NoRowTwice"],
    "SampleSet": ["SelectSound", "MetaKept", "IdentityOps"],
    "Pipeline": ["RoundTrip", "InvJacNeg", "CompositeOrder", "JacAccumulates", "OnceEach"],
    "Persist": ["NormIdempotent", "NormKeepsSentinels"],
    "Dtypes": ["PrecisionIsIdentity"],
    "Dispatch": ["DefaultPreconditioned"],
    "Density": [],
}


_STR = re.compile(r'"(?:[^"\\]|\\.)*"')
_TR = str.maketrans({"[": "{", "]": "}", "{": "[", "}": "]"})


def tla_to_json(txt: str):
    """A TLA+ value as TLC prints it (records, tuples, sets, strings, integers, booleans) -> Python.
    Records become dicts, tuples and sets lists.  Functions with other domains are not supported."""
    out = []
    pos = 0
    for m in _STR.finditer(txt):
        out.append(_conv(txt[pos:m.start()]))
        out.append(m.group(0))
        pos = m.end()
    out.append(_conv(txt[pos:]))
    return json.loads("".join(out))


def _conv(t: str) -> str:
    if ":>" in t or "@@" in t:
        raise MachineryError("function value with a non-sequence domain in exported state")
    t = t.replace("<<", "\x01").replace(">>", "\x02").translate(_TR).replace("\x01", "[").replace("\x02", "]")
    t = re.sub(r"([A-Za-z_][A-Za-z0-9_]*)\s*\|->", r'"\1":', t)
    return t.replace("TRUE", "true").replace("FALSE", "false")


def export_states(module: str, consts: dict, var: str = "cur", name=None, timeout=1800, workers=8):
    """Like export_cases for modules whose cases are the *initial states* themselves (Init is an
    existential over the case space, so TLC enumerates it without building one huge set): the states
    are dumped by TLC (-dump) and read back.  Returns (cases, TLCResult, ncases)."""
    wd = workdir("states-" + (name or module))
    try:
        cfg = wd / f"{module}.run.cfg"
        lines = ["SPECIFICATION Spec"] + (["CONSTANTS"] + [f"  {k} {v}" for k, v in consts.items()] if consts else [])
        for law in LAWS.get(module.replace("MC_", ""), []):
            lines.append(f"INVARIANT {law}")
        cfg.write_text("\n".join(lines) + "\n")
        dump = wd / "states"
        r = run_tlc(module, str(cfg), workers=workers, timeout=timeout, metaname=name or module,
                    extra=["-dump", str(dump)])
        require_tlc_ok(r, module)
        if r.violated:
            raise MachineryError(f"{module}: a law of the reference model is false ({r.violated}):\n" + r.out[-1500:])
        f = wd / "states.dump"
        if not f.exists():
            raise MachineryError(f"{module} dumped no states:\n" + r.out[-1500:])
        txt = f.read_text()
        cases = []
        for blk in re.split(r"^State \d+:\s*$", txt, flags=re.M)[1:]:
            blk = blk.strip()
            if not blk.startswith(var + " ="):
                raise MachineryError(f"unexpected state text: {blk[:80]}")
            cases.append(tla_to_json(blk[len(var) + 2:]))
        if len(cases) != r.distinct:
            raise MachineryError(f"{module}: {len(cases)} dumped states but TLC reports {r.distinct} distinct")
        # canonical order (TLC's dump order depends on worker scheduling)
        cases.sort(key=lambda c: json.dumps(c, sort_keys=True))
        return cases, r, len(cases)
    finally:
        cleanup(wd)


def export_cases(module: str, consts: dict, defs_module: str | None = None, name=None,
                 timeout=1800, workers=8):
    """Run TLC on `module` with literal constants; returns (cases list, TLCResult, ncases)."""
    wd = workdir("cases-" + (name or module))
    try:
        out = wd / "cases.json"
        cfg = wd / f"{module}.run.cfg"
        lines = ["SPECIFICATION Spec", "CONSTANTS"]
        for k, v in consts.items():
            lines.append(f"  {k} {v}")
        if not consts:
            lines = ["SPECIFICATION Spec"]
        # one TLC state per case; the laws of the reference model are state invariants
        for law in LAWS.get(module.replace("MC_", ""), []):
            lines.append(f"INVARIANT {law}")
        cfg.write_text("\n".join(lines) + "\n")
        r = run_tlc(module, str(cfg), workers=workers, env={"OUT_FILE": str(out)}, timeout=timeout,
                    metaname=name or module)
        require_tlc_ok(r, module)
        if ("Assumption" in r.out and "is false" in r.out) or r.violated:
            raise MachineryError(f"{module}: a law of the reference model is false ({r.violated}):\n" + r.out[-1500:])
        if not out.exists():
            raise MachineryError(f"{module} exported no cases:\n" + r.out[-1500:])
        cases = json.loads(out.read_text())
        m = re.search(r'<<\s*"NCASES",\s*(\d+)\s*>>', r.out)
        n = int(m.group(1)) if m else len(cases)
        return cases, r, n
    finally:
        cleanup(wd)
