"""Spec -> code for the exact-arithmetic reference models: TLC enumerates the case space of a
module (laws checked as ASSUMEs over the whole set), exports every case with the
specification's expected outcome as JSON, and the driver replays each case on the real code."""
from __future__ import annotations

import json
import re
import time

import common
from common import MachineryError, cleanup, require_tlc_ok, run_tlc, workdir


LAWS = {
    "Weights": ["EssRange", "RelVarNonNeg", "PermInv", "ShiftLaw", "UniformEss"],
    "WeightsNear": ["TwoPassIsOnePass", "SpreadNonNeg", "ZeroIffUniform", "PermInvNear"],
    "Target": ["ZeroPriorMinusInf", "NanToMinusInf", "FiniteIffAllFinite", "TargetDef"],
    "Resample": ["ProbsSumToOne", "ProbsPositive", "Monotone", "SameBetaUniform", "DrawnRowsLive"],
    "InitialDraw": ["ExactlyN", "OnlyValid", "DrawOrder", "NoRowTwice"],
    "SampleSet": ["SelectSound", "MetaKept", "IdentityOps"],
    "Pipeline": ["RoundTrip", "InvJacNeg", "CompositeOrder", "JacAccumulates", "OnceEach"],
    "Persist": ["NormIdempotent", "NormKeepsSentinels"],
    "Dtypes": ["PrecisionIsIdentity"],
    "Dispatch": ["DefaultPreconditioned"],
    "Density": [],
}


def export_cases(module: str, consts: dict, defs_module: str | None = None, name=None,
                 timeout=1800, workers=8):
    """Run TLC on `module` with literal constants; returns (cases list, TLCResult, ncases)."""
    wd = workdir("cases-" + (name or module))
    try:
        out = wd / "cases.json"
        cfg = wd / f"{module}.run.cfg"
        lines = ["SPECIFICATION Spec", "CONSTANTS"]
        for k, v in consts.items():
            lines.append(f"  {k} {v}")
        if not consts:
            lines = ["SPECIFICATION Spec"]
        # one TLC state per case; the laws of the reference model are state invariants
        for law in LAWS.get(module.replace("MC_", ""), []):
            lines.append(f"INVARIANT {law}")
        cfg.write_text("\n".join(lines) + "\n")
        r = run_tlc(module, str(cfg), workers=workers, env={"OUT_FILE": str(out)}, timeout=timeout,
                    metaname=name or module)
        require_tlc_ok(r, module)
        if ("Assumption" in r.out and "is false" in r.out) or r.violated:
            raise MachineryError(f"{module}: a law of the reference model is false ({r.violated}):\n" + r.out[-1500:])
        if not out.exists():
            raise MachineryError(f"{module} exported no cases:\n" + r.out[-1500:])
        cases = json.loads(out.read_text())
        m = re.search(r'<<\s*"NCASES",\s*(\d+)\s*>>', r.out)
        n = int(m.group(1)) if m else len(cases)
        return cases, r, n
    finally:
        cleanup(wd)
