#!/bin/bash
# re-detect every seeded change (quick tier by default), 5 at a time; summary in /tmp/mw/detect_all.txt
tier=${1:-quick}
cd /verif
mkdir -p /tmp/mw
: > /tmp/mw/detect_all.txt
run_batch() {
  printf '%s\n' "$@" | xargs -P 5 -I{} sh -c 'id={}; prop=$(echo $id | cut -c1-3); out=$(harness/mutant.sh detect $id $prop '"$tier"' 2>&1 | head -1); echo "$id $out" >> /tmp/mw/detect_all.txt'
}
r1=$(ls seeded | grep -E '^C[0-9]+$')
r2=$(ls seeded | grep -E '^C[0-9]+_r2$')
r3=$(ls seeded | grep -E '^C[0-9]+_r3$')
r4=$(ls seeded | grep -E '^C[0-9]+_r4$')
r5=$(ls seeded | grep -E '^C[0-9]+_r5$')
r6=$(ls seeded | grep -E '^C[0-9]+_r6$')
r7=$(ls seeded | grep -E '^C[0-9]+_r7$')
[ "${ONLY:-}" = "r3" ] || run_batch $r1
[ "${ONLY:-}" = "r3" ] || run_batch $r2
run_batch $r3
run_batch $r4
run_batch $r5
run_batch $r6
run_batch $r7
sort /tmp/mw/detect_all.txt
