"""C10 / C17 (spec -> code): every validity-mask sequence of InitialDraw.tla replayed on the real
MCMCSampler.draw_initial_samples with a scripted proposal and prior."""
from __future__ import annotations

import numpy as np

import smcdrv
import tlacases


class ScriptedFlow:
    def __init__(self, masks, xp, dt):
        self.masks, self.xp, self.dt = masks, xp, dt
        self.calls = 0

    def sample_and_log_prob(self, n):
        b = self.calls
        self.calls += 1
        if b >= len(self.masks):        # the loop asked for more batches than the specification says
            raise RuntimeError("extra proposal batch requested")
        ids = np.array([(b + 1) * 10 + i + 1 for i in range(n)], dtype=np.float64)
        x = np.stack([ids, -ids], axis=1)
        return self.xp.asarray(np.asarray(x, dtype=self.dt)), self.xp.asarray(np.asarray(0.25 * ids, dtype=self.dt))

    def log_prob(self, x):
        raise NotImplementedError


def replay(verdict, tier, seed, owner):
    """owner: 'C10' reports InitialPopulation / CachedCoherent clauses, 'C17' the call-order / count clauses"""
    n_rows = 3 if tier == "quick" else 4
    cases, r, ncases = tlacases.export_cases("InitialDraw", {"N": f"= {n_rows}", "MaxBatches": "= 3"}, name="initialdraw", timeout=3000)
    if tier != "quick" and len(cases) > 6000:
        cases = cases[:: max(1, len(cases) // 6000)]
    from aspire.samplers.mcmc import MCMCSampler
    from aspire.samplers.smc.minipcn import MiniPCNSMC
    nss = ["numpy", "torch", "jax"]
    n_eval = 0
    for ci, c in enumerate(cases):
        ns = nss[ci % len(nss)]
        dt = ("float64", "float32")[(ci // len(nss)) % 2]
        xp = smcdrv.get_xp(ns)
        masks = c["masks"]
        N = len(masks[0])
        valid_ids = {(b + 1) * 10 + i + 1 for b, m in enumerate(masks) for i, v in enumerate(m) if v}
        bad_val = {"minf": -np.inf, "nan": np.nan, "pinf": np.inf}
        invalid = {(b + 1) * 10 + i + 1: bad_val[c["invalid_kind"][b][i]] for b, m in enumerate(masks) for i, v in enumerate(m) if not v}
        log = {"prior": [], "like": []}

        def lp(s):
            ids = np.rint(np.asarray(smcdrv.to_np(s.x), dtype=np.float64)[:, 0]).astype(int)
            log["prior"].append(ids.tolist())
            return s.xp.asarray(np.asarray([(-float(i) if i in valid_ids else invalid.get(i, -np.inf)) for i in ids], dtype=dt))

        def ll(s):
            ids = np.rint(np.asarray(smcdrv.to_np(s.x), dtype=np.float64)[:, 0]).astype(int)
            pr = None if s.log_prior is None else np.asarray(smcdrv.to_np(s.log_prior), dtype=np.float64)
            log["like"].append((ids.tolist(), None if pr is None else pr.tolist()))
            return s.xp.asarray(np.asarray(2.0 * ids, dtype=dt))
        scen = {"builder": "initialdraw_case", "params": {"case": c, "ns": ns, "dtype": dt}}
        Cls = MiniPCNSMC if ci % 2 == 0 else MCMCSampler
        smp = Cls(log_likelihood=ll, log_prior=lp, dims=2, prior_flow=ScriptedFlow(masks, xp, dt), xp=xp, dtype=dt,
                  parameters=["a", "b"])
        n_eval += 1
        try:
            pop = smp.draw_initial_samples(N)
        except Exception as ex:
            verdict.violation(f"NeverRaises|draw_initial_samples|{ns}|{type(ex).__name__}",
                              f"draw_initial_samples raised {type(ex).__name__}: {str(ex)[:120]} for validity masks {masks}", scen)
            continue
        exp_ids = [b * 10 + i for (b, i) in c["kept"]]
        got_ids = np.rint(np.asarray(smcdrv.to_np(pop.x), dtype=np.float64)[:, 0]).astype(int).tolist()
        if owner == "C10":
            if len(got_ids) != N or got_ids != exp_ids:
                verdict.violation(f"InitialPopulation|rows|{ns}", f"initial population holds draws {got_ids}, the first {N} valid draws are {exp_ids} (masks {masks})", scen)
            else:
                lq = np.asarray(smcdrv.to_np(pop.log_q), dtype=np.float64)
                lpv = np.asarray(smcdrv.to_np(pop.log_prior), dtype=np.float64)
                llv = np.asarray(smcdrv.to_np(pop.log_likelihood), dtype=np.float64)
                ids = np.asarray(exp_ids, dtype=np.float64)
                if not (np.array_equal(lq, 0.25 * ids) and np.array_equal(lpv, -ids) and np.array_equal(llv, 2 * ids)):
                    verdict.violation(f"CachedCoherent|initial|{ns}", f"initial particles are not paired with their own log-densities: log_q {lq.tolist()}, log_prior {lpv.tolist()}, log_likelihood {llv.tolist()} for draws {exp_ids}", scen)
                if not np.all(np.isfinite(lpv)):
                    verdict.violation(f"InitialPopulation|finite|{ns}", "a zero-prior particle is in the initial population", scen)
        else:
            if len(log["like"]) != c["likelihood_calls"] or (log["like"] and log["like"][0][0] != exp_ids):
                verdict.violation(f"CountExact|initial|{ns}", f"likelihood called {len(log['like'])} time(s) on {[q[0] for q in log['like']]}, specification: once on {exp_ids}", scen)
            elif log["like"][0][1] is None or log["like"][0][1] != [-float(i) for i in exp_ids]:
                verdict.violation(f"PriorBeforeLikelihood|initial|{ns}", f"the likelihood received log_prior {log['like'][0][1]} for draws {exp_ids}", scen)
            if smp.n_likelihood_evaluations != c["likelihood_points"]:
                verdict.violation(f"CountExact|initial-counter|{ns}", f"n_likelihood_evaluations = {smp.n_likelihood_evaluations}, {c['likelihood_points']} points were evaluated", scen)
            if len(log["prior"]) != c["prior_calls"]:
                verdict.violation(f"conf_prior_calls|{ns}", f"prior called {len(log['prior'])} times, model {c['prior_calls']}", scen)
    return {"initialdraw_cases": ncases, "initialdraw_replays": n_eval, "tlc_states": r.distinct, "tlc_transitions": r.generated}
