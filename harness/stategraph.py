"""Reader for TLC state-graph dumps (-dump dot,actionlabels) and shortest-path helper."""
from __future__ import annotations

import re
from collections import deque

import common

_NODE = re.compile(r'^(-?\d+) \[label="((?:[^"\\]|\\.)*)"', re.M)
_EDGE = re.compile(r'^(-?\d+) -> (-?\d+) \[label="((?:[^"\\]|\\.)*)"', re.M)


def _unescape(s: str) -> str:
    return s.replace("\\n", "\n").replace('\\"', '"').replace("\\\\", "\\")


def parse_state(label: str) -> dict:
    txt = _unescape(label)
    st = {}
    p = common._P(txt)
    while True:
        p.ws()
        if p.i >= len(txt):
            break
        p.expect("/\\")
        p.ws()
        m = re.match(r"[A-Za-z_][A-Za-z0-9_]*", txt[p.i:])
        name = m.group(0)
        p.i += len(name)
        p.expect("=")
        st[name] = p.value()
    return st


class Graph:
    def __init__(self, text: str):
        self.nodes = {}
        self.out = {}
        self.edges = []
        self.inits = []
        for m in _NODE.finditer(text):
            nid = m.group(1)
            if nid not in self.nodes:
                self.nodes[nid] = parse_state(m.group(2))
                eol = text.find("\n", m.end())
                if "style = filled" in text[m.end():eol if eol > 0 else len(text)]:
                    self.inits.append(nid)
        for m in _EDGE.finditer(text):
            u, v, lab = m.group(1), m.group(2), _unescape(m.group(3))
            if u == v:
                continue
            self.edges.append((u, v, lab))
            self.out.setdefault(u, []).append((v, lab))
        # BFS parents
        self.parent = {}
        dq = deque(self.inits)
        for i in self.inits:
            self.parent[i] = None
        while dq:
            u = dq.popleft()
            for (v, lab) in self.out.get(u, []):
                if v not in self.parent:
                    self.parent[v] = (u, lab)
                    dq.append(v)

    def path_to(self, nid):
        """list of (node_id, label) edges from an initial state to nid (shortest)."""
        path = []
        cur = nid
        while self.parent.get(cur) is not None:
            u, lab = self.parent[cur]
            path.append((cur, lab))
            cur = u
        path.reverse()
        return cur, path


def dump_graph(module: str, cfg: str, name: str, specdir=None, timeout=1800):
    wd = common.workdir("graph-" + name)
    try:
        dot = wd / "g.dot"
        r = common.run_tlc(module, cfg, workers=1, extra=["-dump", "dot,actionlabels", str(dot)],
                           specdir=specdir, metaname="graph-" + name, timeout=timeout)
        common.require_tlc_ok(r, module)
        text = dot.read_text()
        return Graph(text), r
    finally:
        common.cleanup(wd)


def parse_sim_file(path):
    """one behaviour written by `tlc -simulate file=...`: list of (action label with parameters, state)"""
    txt = open(path).read()
    out = []
    for m in re.finditer(r"\\\* <(.*?) line \d+, col \d+ to line \d+, col \d+ of module \w+>\nSTATE_\d+ == \n(.*?)(?=\n\n|\Z)", txt, re.S):
        out.append((m.group(1), parse_state(m.group(2))))
    return out


def simulate(module, cfg, num, depth, seed, name, specdir=None, timeout=1800):
    """behaviours from TLC's simulation mode (random walks through the specification)"""
    import glob
    wd = common.workdir("sim-" + name)
    try:
        r = common.run_tlc(module, cfg, workers=1, specdir=specdir, metaname="sim-" + name, timeout=timeout,
                           extra=["-simulate", f"file={wd}/tr,num={num}", "-depth", str(depth), "-seed", str(seed)])
        behs = [parse_sim_file(f) for f in sorted(glob.glob(f"{wd}/tr_*"))]
        return [b for b in behs if len(b) > 1], r
    finally:
        common.cleanup(wd)
