"""C14 (and the C12 clause ConfigAndFlowFirst at life-cycle level).

E1  TLC explores every history of fit / refit / sample / enter / leave / resume operations on one
    checkpoint file up to a depth bound (Lifecycle.tla) and checks FileSelfConsistent.
E3  The reachable state graph is dumped and every edge (quick: a seeded sample) is replayed on a
    real Aspire object (VerifFlow proposal through the aspire.flows entry point, stub kernel,
    real HDF5 file): shortest path from the initial state on fresh objects, then the edge's
    operation; the projection of the real state is compared with the model's successor state
    (conformance) and the property is evaluated on the *real* projected state.
E4  A design-level counter-example of an invariant is executed on the real code before it is
    reported (its last state is judged on the real projection).
"""
from __future__ import annotations

import json
import multiprocessing as mp
import os
import pickle
import random
import re
import time

import numpy as np

import common
import stategraph
from common import MachineryError, Verdict, cleanup, workdir, write_evidence, STD_ASSUMPTIONS

DATA = {}
REFS = {}
PROBE = np.array([[0.1, -0.3], [1.2, 0.7], [-1.5, 2.0]])


def _data():
    if not DATA:
        r = np.random.default_rng(12345)
        DATA["A"] = r.normal(-1.0, 0.7, size=(40, 2))
        DATA["B"] = r.normal(1.5, 1.2, size=(40, 2))
    return DATA


class Funcs:
    """user likelihood / prior with fault injection (shared by all instances of one replay)"""

    def __init__(self):
        self.k = 0
        self.fault_k = None

    def reset(self, fault_k=None):
        self.k = 0
        self.fault_k = fault_k

    def log_likelihood(self, samples):
        import smcdrv
        self.k += 1
        if self.fault_k is not None and self.k == self.fault_k:
            raise smcdrv.InjectedFault(f"likelihood call {self.k}")
        x = smcdrv.to_np(samples.x)
        return samples.xp.asarray(-0.5 * ((x - 0.5) ** 2).sum(-1) / 0.64, dtype=samples.dtype)

    def log_prior(self, samples):
        import smcdrv
        x = smcdrv.to_np(samples.x)
        inside = (np.abs(x) < 8).all(-1)
        return samples.xp.asarray(np.where(inside, -0.5 * ((x / 4.0) ** 2).sum(-1), -np.inf), dtype=samples.dtype)


class RealSys:
    def __init__(self, wd):
        import array_api_compat.numpy as xnp
        self.xnp = xnp
        self.path = str(wd / "f.h5")
        self.f = Funcs()
        self.cms = []
        self.a = self._new()
        self.ref = {}
        # ghosts the judge needs (computed from real observations, never from the model)
        self.cfg_by = "nobody"
        self.ck_cfgsaved = False
        self.ck_refit = False
        self.tainted = False
        self.mixed = False       # a checkpoint was resumed by another sampler class than its writer (outside ConfigNamesWriter)
        self._refs()

    def _new(self):
        from aspire import Aspire
        return Aspire(log_likelihood=self.f.log_likelihood, log_prior=self.f.log_prior, dims=2,
                      # names not in alphabetical order, different bounds, bounds mapped to the real line: the
                      # proposal stored in the file depends on every one of these surviving the round trip
                      parameters=["q", "alpha"], prior_bounds={"q": [-8, 8], "alpha": [-6, 9]},
                      flow_backend="verifflow", xp=self.xnp, bounded_to_unbounded=True)

    def _refs(self):
        from aspire.samples import Samples
        if not REFS:
            for d, x in _data().items():
                a = self._new()
                a.fit(Samples(x, xp=self.xnp))
                REFS[d] = a.flow
        self.ref = REFS

    # ---- projection ---------------------------------------------------
    def _tag_of_flow(self, fl0):
        import smcdrv
        v = smcdrv.to_np(fl0.log_prob(PROBE))
        for d, fl in self.ref.items():
            if np.allclose(v, smcdrv.to_np(fl.log_prob(PROBE)), atol=1e-10):
                return d
        return "?"

    def _under(self, samples):
        import smcdrv
        x = np.asarray(smcdrv.to_np(samples.x), dtype=float)
        lq = smcdrv.to_np(samples.log_q)
        hits = [d for d, fl in self.ref.items() if np.allclose(smcdrv.to_np(fl.log_prob(x)), lq, atol=1e-9)]
        return hits[0] if len(hits) == 1 else "?"

    def _ck_proj(self, state):
        if state is None:
            return {"sampler": "none", "under": "none", "final": False}
        s = state["samples"]
        return {"sampler": str(state.get("sampler")), "under": self._under(s),
                "final": getattr(s, "log_evidence", None) is not None}

    def file_state(self):
        import h5py
        out = {"fcfg": "absent", "fflow": "none", "fck": self._ck_proj(None), "blob": None}
        if not os.path.exists(self.path):
            return out
        with h5py.File(self.path, "r") as f:
            if "aspire_config" in f:
                g = f["aspire_config"]
                if "sampler_type" in g:
                    v = g["sampler_type"][()]
                    v = v.decode() if isinstance(v, bytes) else str(v)
                    out["fcfg"] = v
                else:
                    out["fcfg"] = "none"
            if "flow" in f:
                import verifflow_mod
                out["fflow"] = self._tag_of_flow(verifflow_mod.VerifFlow.load(f, "flow"))
            if "checkpoint" in f and "state" in f["checkpoint"]:
                blob = f["checkpoint"]["state"][...].tobytes()
                out["blob"] = blob
                out["fck"] = self._ck_proj(pickle.loads(blob))
        return out

    def project(self):
        a = self.a
        st = self.file_state()
        d = getattr(a, "_checkpoint_defaults", None)
        st["flow"] = "none" if a.flow is None else self._tag_of_flow(a.flow)
        st["lastType"] = getattr(a, "_last_sampler_type", "unset")
        st["defaults"] = ({"on": False, "save_config": False, "saved_config": False, "saved_flow": False}
                          if not d else {"on": True, "save_config": bool(d["save_config"]),
                                         "saved_config": bool(d["saved_config"]), "saved_flow": bool(d["saved_flow"])})
        st["nctx"] = len(self.cms)
        pb = getattr(a, "_resume_from_default", None)
        st["primed"] = {"ck": self._ck_proj(pickle.loads(pb) if pb else None),
                        "type": getattr(a, "_resume_sampler_type", None) or "none"}
        return st

    # ---- operations -----------------------------------------------------
    def apply(self, label):
        """label: TLC action label, e.g. Fit("A",TRUE,FALSE).  Returns outcome string."""
        import smcdrv
        from aspire.samples import Samples
        m = re.match(r"(\w+)(?:\((.*)\))?$", label.strip())
        name = m.group(1)
        args = []
        if m.group(2):
            for tok in m.group(2).split(","):
                tok = tok.strip()
                args.append(True if tok == "TRUE" else False if tok == "FALSE" else tok.strip('"'))
        before = self.file_state()
        outcome = "ok"
        try:
            if name == "Fit":
                d, use_path, ow = args
                self.a.fit(Samples(_data()[d], xp=self.xnp), checkpoint_path=self.path if use_path else None,
                           overwrite=ow)
            elif name == "Sample":
                kind, use_path, fault = args
                pre = self.project()
                resuming = pre["primed"]["ck"]["sampler"] != "none"
                stype = kind
                if kind == "importance" and pre["primed"]["type"] != "none":
                    stype = pre["primed"]["type"]
                kw = dict(n_samples=6)
                if kind == "smc":
                    kw.update(sampler="smc", sampler_kwargs={"n_steps": 1}, rng=np.random.default_rng(5))
                    if not resuming:
                        kw.update(adaptive=False, n_steps=2)
                if use_path:
                    kw["checkpoint_path"] = self.path
                fk = None
                if fault == "early":
                    fk = 1
                elif fault == "mid":
                    fk = 5
                self.f.reset(fk)
                # ghosts: was configuration saving on for this run; is a checkpoint resumed under another proposal
                d0 = getattr(self.a, "_checkpoint_defaults", None)
                path_on = use_path or (bool(d0) and str(d0.get("path")) == str(self.path))     # the file this replay follows
                save_cfg = True if use_path else (bool(d0["save_config"]) if d0 else False)
                will_resume_smc = resuming and stype in ("smc", "minipcn_smc", "emcee_smc")
                stale = resuming and pre["fck"]["sampler"] != "none" and pre["fck"]["under"] != pre["flow"]
                if resuming and path_on and SAMPLER_OF.get(stype, "none") != pre["primed"]["ck"]["sampler"]:
                    self.mixed = True
                from_final_other = will_resume_smc and pre["primed"]["ck"]["final"] and pre["primed"]["ck"]["under"] != pre["flow"]
                try:
                    self.a.sample_posterior(**kw)
                finally:
                    self.f.reset(None)
                    after = self.file_state()
                    if path_on and after["blob"] != before["blob"]:
                        self.ck_cfgsaved = save_cfg
                        self.ck_refit = bool(from_final_other)
                    elif path_on and stale and after["blob"] is not None:
                        self.ck_refit = True
            elif name == "EnterAuto":
                side = len(args) > 1 and args[1] is True
                cm = self.a.auto_checkpoint(self.path + ".side.h5" if side else self.path, save_config=args[0])
                cm.__enter__()
                self.cms.append(cm)
            elif name == "ExitAuto":
                cm = self.cms.pop()
                cm.__exit__(None, None, None)
            elif name == "ResumeFromFile":
                from aspire import Aspire
                ov = args[0] if args and args[0] != "none" else None
                new = Aspire.resume_from_file(self.path, log_likelihood=self.f.log_likelihood,
                                              log_prior=self.f.log_prior, sampler=ov)
                self.a = new
                self.cms = []
                self.mixed = False
                self.tainted = bool(before["fck"]["sampler"] != "none"
                                    and SAMPLER_OF.get(before["fcfg"], "none") != before["fck"]["sampler"])
            else:
                raise MachineryError(f"unknown action {label}")
        except smcdrv.InjectedFault:
            outcome = "fault"
        except (ValueError, FileNotFoundError, OSError, KeyError) as ex:
            outcome = "ValueError"
        except TypeError as ex:
            outcome = "TypeError"
        except MachineryError:
            raise
        except Exception as ex:
            outcome = f"raised:{type(ex).__name__}:{str(ex)[:80]}"
        after = self.file_state()
        # who wrote the configuration last: a marker attribute planted on the config group
        # disappears when the group is deleted and re-created
        if self._cfg_rewritten():
            self.cfg_by = "fit" if name == "Fit" else ("sample" if name == "Sample" else self.cfg_by)
        self._plant_marker()
        if after["blob"] is None:
            self.ck_cfgsaved = False
            self.ck_refit = False
        return outcome

    def _plant_marker(self):
        import h5py
        if os.path.exists(self.path):
            with h5py.File(self.path, "a") as f:
                if "aspire_config" in f:
                    f["aspire_config"].attrs["verif_marker"] = 1

    def _cfg_rewritten(self):
        import h5py
        if not os.path.exists(self.path):
            return False
        with h5py.File(self.path, "r") as f:
            return "aspire_config" in f and "verif_marker" not in f["aspire_config"].attrs


SAMPLER_OF = {"smc": "MiniPCNSMC", "minipcn_smc": "MiniPCNSMC", "importance": "ImportanceSampler", "emcee_smc": "EmceeSMC"}


def judge(real, sysm, exp=None):
    """FileSelfConsistent evaluated on the real projected state.  -> list of (clause, known_family).
    exp: the specification's state after the same history (None when a stored scenario is replayed).
    A recorded finding is a behaviour the specification itself exhibits (its ghost-flagged states): a
    real-state violation is attributed to it only if the specification's state shows the same mismatch;
    where the specification says the file is consistent, the violation is new."""
    out = []
    ck = real["fck"]
    if ck["sampler"] != "none":
        if real["fflow"] != "none" and real["fflow"] != ck["under"]:
            known = sysm.ck_refit
            if known and exp is not None:
                known = bool(exp["fck"].get("refit")) or (exp["fflow"] != "none" and exp["fck"]["sampler"] != "none" and exp["fflow"] != exp["fck"]["under"])
            out.append(("ProposalMatchesCheckpoint", "refit_then_resume" if known else None))
        if real["fcfg"] != "absent" and sysm.ck_cfgsaved and not getattr(sysm, "mixed", False):
            names = SAMPLER_OF.get(real["fcfg"], "none")
            if names != ck["sampler"]:
                # the recorded finding is: fit() rewrites the configuration with the instance's *last sampler
                # type* (another sampler than the checkpoint's writer).  A configuration that names no
                # sampler at all next to a checkpoint is a different failure and is not covered by it.
                known = (sysm.cfg_by == "fit" or sysm.tainted) and names != "none"
                if known and exp is not None:
                    m_ck = exp["fck"]
                    known = (m_ck["sampler"] != "none" and exp["fcfg"] != "absent"
                             and SAMPLER_OF.get(exp["fcfg"], "none") != m_ck["sampler"])
                out.append(("ConfigNamesWriter", "fit_config_type" if known else None))
    return out


def model_view(st):
    """the part of a model state that is compared with the real projection"""
    ck = st["fck"]
    pk = st["primed"]["ck"]
    return {
        "flow": st["flow"], "lastType": st["lastType"],
        "defaults": {k: st["defaults"][k] for k in ("on", "save_config", "saved_config", "saved_flow")},
        "nctx": len(st["ctx"]), "fcfg": st["fcfg"], "fflow": st["fflow"],
        "fck": {"sampler": ck["sampler"], "under": ck["under"], "final": ck["final"]},
        "primed": {"ck": {"sampler": pk["sampler"], "under": pk["under"], "final": pk["final"]},
                   "type": st["primed"]["type"]},
    }


def real_view(r):
    return {k: r[k] for k in ("flow", "lastType", "defaults", "nctx", "fcfg", "fflow", "fck", "primed")}


def replay_edge(job):
    """job = (labels_prefix, edge_label, expected_successor_state, expected_prefix_states)"""
    labels, expected_states = job
    wd = workdir("lc")
    res = {"labels": labels, "drift": None, "viol": [], "outcomes": []}
    try:
        sysm = RealSys(wd)
        for i, lab in enumerate(labels):
            out = sysm.apply(lab)
            res["outcomes"].append(out)
            real = sysm.project()
            for (clause, fam) in judge(real, sysm, expected_states[i]):
                res["viol"].append({"clause": clause, "family": fam, "at": i, "labels": labels[: i + 1],
                                    "real": {k: real[k] for k in ("fcfg", "fflow", "fck")}})
            exp = expected_states[i]
            if exp is not None and res["drift"] is None:
                mv, rv = model_view(exp), real_view(real)
                exp_out = exp["op"][-1] if exp["op"][0] in ("fit", "sample", "resume") else "ok"
                diffs = [k for k in mv if mv[k] != rv[k]]
                if out != exp_out:
                    diffs.append(f"outcome {out} (model {exp_out})")
                if diffs:
                    res["drift"] = {"at": i, "label": lab, "diffs": diffs,
                                    "model": {k: mv[k] for k in diffs if k in mv},
                                    "real": {k: rv[k] for k in diffs if k in rv}}
            if res["viol"] and res["viol"][0]["family"] is None:
                break
    except MachineryError:
        raise
    except Exception as ex:
        import traceback
        res["error"] = traceback.format_exc()
    finally:
        cleanup(wd)
    return res


def tlc_cfg(maxops, repaired, invariants=True, narrow=False):
    t = "TRUE" if repaired else "FALSE"
    lines = ["SPECIFICATION Spec", "CONSTANTS", f"  MaxOps = {maxops}", f"  Narrow = {'TRUE' if narrow else 'FALSE'}", f"  RewriteFlow = {t}",
             f"  DropStaleCkpt = {t}", "  MapClassName = FALSE", f"  ResumeSavesConfig = {t}"]
    if invariants:
        lines += ["INVARIANT ProposalMatchesCheckpoint", "INVARIANT ConfigNamesWriter", "INVARIANT ConfigAndFlowFirst"]
    return "\n".join(lines) + "\n"


def main(prop, tier, seed, replay_path=None):
    t0 = time.time()
    rnd = random.Random(seed * 31 + 7)
    verdict = Verdict(prop)
    repaired = os.environ.get("VERIF_LIFECYCLE_ASIS") != "1"
    wd = workdir("lifecycle")
    try:
        # ---- E1: exhaustive design-level check
        depth_e1 = 6 if tier == "quick" else 8
        (wd / "e1.cfg").write_text(tlc_cfg(depth_e1, repaired))
        r1 = common.run_tlc("Lifecycle", str(wd / "e1.cfg"), workers=16, metaname="lc-e1")
        common.require_tlc_ok(r1, "Lifecycle")
        e1_counterexamples = []
        if r1.violated:
            ops = re.findall(r'/\\ op = (<<[^\n]*>>)', r1.out)
            e1_counterexamples.append({"invariant": r1.violated[0], "ops": ops})
        # ---- graph for replay
        depth_g = 5 if tier == "quick" else 6
        (wd / "g.cfg").write_text(tlc_cfg(depth_g, repaired, invariants=False))
        g, rg = stategraph.dump_graph("Lifecycle", str(wd / "g.cfg"), "lifecycle")
    finally:
        cleanup(wd)
    if replay_path:
        scen = json.loads(open(replay_path).read())["scenario"]
        jobs = [(scen["params"]["labels"], [None] * len(scen["params"]["labels"]))]
    else:
        # the transition taken by the code depends on the real state only: edges whose source states
        # differ only in the operation counter / last operation / ghosts are one case; keep the shallowest
        def view(st):
            return json.dumps({k: st[k] for k in ("flow", "lastType", "defaults", "ctx", "primed", "fcfg", "fflow", "fck")},
                              sort_keys=True, default=str)
        best = {}
        for e in g.edges:
            key = (view(g.nodes[e[0]]), e[2])
            if key not in best or g.nodes[e[0]]["nops"] < g.nodes[best[key][0]]["nops"]:
                best[key] = e
        edges = sorted(best.values())
        n_unique = len(edges)
        rnd.shuffle(edges)
        if tier == "quick":
            # every checkpoint-writing operation, every shallow edge, plus a seeded sample of the rest
            key_edges = [e for e in edges if e[2].startswith('Sample("smc"') or g.nodes[e[0]]["nops"] <= 1]
            rest = [e for e in edges if not (e[2].startswith('Sample("smc"') or g.nodes[e[0]]["nops"] <= 1)]
            edges = key_edges + rest[:600]
        jobs = []
        for (u, v, lab) in edges:
            _, path = g.path_to(u)
            labels = [l for (_, l) in path] + [lab]
            states = [g.nodes[n] for (n, _) in path] + [g.nodes[v]]
            jobs.append((labels, states))
        # a deeper graph over a narrower alphabet (contexts on the file and on a second file, fits and runs):
        # the histories that need seven operations
        wd3 = workdir("lifecycle-narrow")
        try:
            (wd3 / "n.cfg").write_text(tlc_cfg(7 if tier == "quick" else 8, repaired, invariants=False, narrow=True))
            g2, rg2 = stategraph.dump_graph("Lifecycle", str(wd3 / "n.cfg"), "lifecycle-narrow")
        finally:
            cleanup(wd3)
        best2 = {}
        for e in g2.edges:
            key = (view(g2.nodes[e[0]]), e[2])
            if key not in best2 or g2.nodes[e[0]]["nops"] < g2.nodes[best2[key][0]]["nops"]:
                best2[key] = e
        edges2 = sorted(best2.values())
        rnd.shuffle(edges2)
        # the deepest edges first (the shallow ones are in the full-alphabet graph)
        edges2.sort(key=lambda e: -g2.nodes[e[0]]["nops"])
        n_narrow = 0
        for (u, v, lab) in edges2[: (2500 if tier == "quick" else 40000)]:
            _, path = g2.path_to(u)
            labels = [l for (_, l) in path] + [lab]
            states = [g2.nodes[n] for (n, _) in path] + [g2.nodes[v]]
            jobs.append((labels, states)); n_narrow += 1
        # long random walks through the specification (TLC simulation mode), replayed in full
        wd2 = workdir("lifecycle-sim")
        try:
            (wd2 / "s.cfg").write_text(tlc_cfg(10 if tier == "quick" else 14, repaired, invariants=False))
            behs, rs = stategraph.simulate("Lifecycle", str(wd2 / "s.cfg"), 60 if tier == "quick" else 1500,
                                           11 if tier == "quick" else 15, seed + 1, "lifecycle")
        finally:
            cleanup(wd2)
        n_sim = len(behs)
        for b in behs:
            jobs.append(([lab for (lab, _) in b[1:]], [st for (_, st) in b[1:]]))
    ctx = mp.get_context("fork")
    with ctx.Pool(min(16, os.cpu_count() or 4)) as pool:
        results = pool.map(replay_edge, jobs, chunksize=max(1, len(jobs) // 128))
    errs = [r for r in results if "error" in r]
    if errs:
        raise MachineryError(f"{len(errs)} replays crashed, first:\n{errs[0]['error']}")
    drifts = [r for r in results if r["drift"]]
    n_viol = 0
    for r in results:
        for v in r["viol"]:
            n_viol += 1
            if v["family"]:
                sig = f"{v['clause']}|{v['family']}"
            else:
                sig = f"{v['clause']}|" + ";".join(v["labels"])
            verdict.violation(sig, f"{v['clause']} fails on the real file after {' ; '.join(v['labels'])}: {v['real']}",
                              replay={"builder": "lifecycle_path", "params": {"labels": v["labels"]}})
    seen = set()
    for r in drifts[:400]:
        d = r["drift"]
        key = (re.sub(r"\(.*", "", d["label"]), tuple(sorted(x.split(" ")[0] for x in d["diffs"])))
        if key in seen:
            continue
        seen.add(key)
        if len(seen) <= 6:
            verdict.model_drift(f"Lifecycle: after {' ; '.join(r['labels'][:d['at']+1])}: model {d['model']} vs code {d['real']} ({d['diffs']})")
    # E4 for design-level counter-examples: only reported through the replays above (the graph
    # contains the same histories up to its depth); deeper ones are noted as design-level only
    for ce in e1_counterexamples:
        verdict.model_drift(f"design model: {ce['invariant']} violated at depth <= {depth_e1} by {ce['ops'][1:]} (design level; reported as VIOLATION only when reproduced on the code by the replays)")
    rc, n_unlisted, known = verdict.finish()
    distinct = {tuple(re.sub(r'\(.*', '', l) for l in r["labels"]) for r in results if len(r["labels"]) >= 2}
    cov = {
        "states": int(r1.distinct + rg.distinct), "transitions": int(r1.generated + rg.generated),
        "traces_validated_against_impl": len(results),
        "samples": [{"history": results[i]["labels"], "outcomes": results[i]["outcomes"]} for i in range(min(3, len(results)))],
        "evaluations": len(results), "distinct_nontrivial": len(distinct),
        "rule": "replayed edges of the TLC state graph (each = shortest history to the source state + the edge's operation on fresh real objects); distinct = distinct operation-type sequences of length >= 2",
        "exhaustive": tier != "quick",
        "design_level": {"module": "Lifecycle", "depth": depth_e1, "distinct_states": r1.distinct,
                         "states_generated": r1.generated, "violated": r1.violated, "constants_repaired": repaired},
        "graph": {"depth": depth_g, "states": len(g.nodes), "edges": len(g.edges),
                  "distinct_state_operation_pairs": (n_unique if not replay_path else 0),
                  "edges_replayed": len(jobs) - (n_sim if not replay_path else 0),
                  "simulated_behaviours_replayed": (n_sim if not replay_path else 0),
                  "narrow_alphabet_graph": ({"depth": 7 if tier == "quick" else 8, "states": len(g2.nodes), "edges": len(g2.edges), "edges_replayed": n_narrow} if not replay_path else {})},
        "conformance_rejections": len(drifts), "real_state_violations": n_viol, "known_findings_hit": known,
    }
    write_evidence(prop, tier, seed, time.time() - t0, cov, STD_ASSUMPTIONS + [
        "VerifFlow (registered through the documented aspire.flows entry point) stands for 'some flow'",
        "which proposal a stored population was weighted under is decided by evaluating each candidate proposal's log_prob on the stored particles and comparing with their stored log_q",
    ], n_unlisted)
    return rc
