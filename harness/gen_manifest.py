"""Writes MANIFEST.json from the table below (single source of truth for the interface)."""
import json, sys
from pathlib import Path

V = Path(__file__).resolve().parent.parent

TRACE_NOTE = ("Trusted: TLC; the harness projection (ranks / content ids / three-valued flags with explicit margins); "
              "kernel packages are stand-ins with the API aspire calls (real minipcn/orng/emcee cannot be installed here); "
              "exhaustive only within the stated model constants; real-run corpus is a finite seeded sample.")

CHECKS = {
 "C06": dict(tech="TLC exhaustive on Tempering.tla (all option combos, K=8, all ESS oracles, liveness) + TLC trace validation (SMCTrace.tla) of real stub-kernel SMC runs over the schedule-option grid (every sampler class and namespace, reruns on one object, resumed runs incl. another min_step) + direct replay of determine_beta over a grid of states x options + Apalache inductive invariant (thorough)",
             text="Design-level controller model-checked exhaustively (safety + termination under fairness); every real run of a seeded option/population grid is validated event-by-event by TLC against the spec with schedule monitors. Right level: the property quantifies over option combinations and population shapes, which the model enumerates and the runs sample.", ref="§3.1, §6 C06"),
 "C07": dict(tech="TLC exhaustive on Tempering.tla (BisectPost, AdaptiveMaximal for every downward-closed ESS oracle and any interior probe) + TLC trace validation of real runs with extended-precision ESS flags + direct replay of determine_beta (maximal admissible step judged from independently computed ESS) over a grid of states x options",
             text="Bracketing search model-checked for all oracles/probe orders; on real runs each adaptive step is judged by TLC from independently recomputed ESS flags (meets / next_meets / meets_one / forced).", ref="§3.1, §6 C07"),
 "C08": dict(tech="TLC exhaustive on SMCRun.tla (EvidenceTerms/EvidenceSum/EvidenceIndependent with crash+resume) + TLC trace validation with provenance triples of every recorded ratio; variant groups (n_final, cadence) compared by evidence id",
             text="Design model explores every cadence / n_final / crash / resume route; real runs are validated with per-iteration provenance (which population and temperature pair reproduces each recorded ratio).", ref="§3.2, §6 C08"),
 "C10": dict(tech="TLC trace validation (SMCTrace.tla: CachedCoherent, InitialPopulation) of real runs incl. rejection/redraw, resampling, mutation, enlargement, checkpoints, populations restored from files and results converted by the output-namespace option; InitialDraw.tla replay (invalid draws: -inf, NaN, +inf); results and histories saved to HDF5 and read back; SMCRun.tla exhaustive for the population flow",
             text="Every population the library hands out (history, payloads, result) is re-evaluated with harness-owned injective likelihood/prior/proposal; TLC checks the coherence flags at every event.", ref="§6 C10"),
 "C11": dict(tech="TLC exhaustive on SMCRun.tla (Crash at every user-call site, <=2 crashes, 4 resume routes, payload/restored field sets) + TLC trace validation of reference/crashed/resumed groups (fault at each likelihood call)",
             text="Design model proves the inductive core (restored live state equals the state at checkpoint time) for every crash point; real groups compare bit-exact content ids of schedule, populations, evidence and history between resumed and uninterrupted runs.", ref="§3.2, §6 C11"),
 "C17": dict(tech="TLC trace validation: every likelihood event must carry the prior of exactly its points; TLC sums batch sizes and compares with the reported counter (also after a run left through an exception, and in resumed runs); InitialDraw.tla case space replayed on draw_initial_samples",
             text="All likelihood calls of all runs (initial draw, kernel target, post-mutation, enlargement, resumed runs) are events of the validated traces.", ref="§6 C17"),
 "C18": dict(tech="TLC exhaustive on SMCRun.tla (HistoryFaithful incl. crash/resume) + TLC trace validation: spec-computed history vs logged history, provenance of beta/ESS/ratio",
             text="The spec recomputes the history from seam events with SMCRun's own transformers and compares with what the sampler recorded; also on resumed runs.", ref="§3.2, §6 C18"),
}

NOT_YET = {
 "C01": "statistical statement about expectations/limits of a stochastic process; a TLA+ model has no probability measure and TLC no reals (DESIGN §6 C01). Its structural premises are decided by C02-C10.",
}

def main():
    props = [json.loads(l)["id"] for l in open(V / "properties.jsonl")]
    extra = json.loads((V / "harness" / "manifest_extra.json").read_text()) if (V / "harness" / "manifest_extra.json").exists() else {}
    checks = []
    allc = dict(CHECKS); allc.update(extra.get("checks", {}))
    for pid in props:
        if pid not in allc:
            continue
        c = allc[pid]
        checks.append({
            "property_id": pid,
            "quick_cmd": f"./check {pid} --tier quick",
            "thorough_cmd": f"./check {pid} --tier thorough",
            "evidence_file": f"/verif/evidence/{pid}.json",
            "replay_cmd_template": f"./check {pid} --replay {{path}}",
            "engine": "tla-trace",
            "level_claimed": {"category": "model_checking", "text": c["text"], "design_ref": c["ref"]},
            "level_note": c.get("note", TRACE_NOTE),
            "technique": c["tech"],
        })
    na = dict(NOT_YET); na.update(extra.get("not_applicable", {}))
    for pid in props:
        if pid not in allc and pid not in na:
            na[pid] = "check not built yet in this session (work in progress; see DESIGN §10 build order)"
    m = {
        "version": 1,
        "setup_cmd": "./setup.sh",
        "hooks": {
            "guard": "ASPIRE_VERIF",
            "enable": "no source hooks are needed: all observation points are public seams (user likelihood/prior, flow object, generator, kernel package, checkpoint callback, HDF5 file); ./check exports ASPIRE_VERIF=1 for uniformity",
            "baseline_off_cmd": "cd /repo && /venv/bin/python -m pytest -ra -q -p no:cacheprovider --timeout=900 --continue-on-collection-errors --junitxml=/tmp/aspire_baseline.junit.xml",
            "source_commits": [],
            "add_only": True,
        },
        "engines": [
            {"name": "tla-trace", "path": "/verif/harness", "serves_properties": [c["property_id"] for c in checks],
             "kind_free_text": "TLA+ specifications in /verif/spec checked by TLC (exhaustive design models) + conformance: TLC trace validation of real executions and replay of TLC-generated cases/behaviours on the real code"},
        ],
        "checks": checks,
        "notes": "Model-based verification with explicit TLA+ specifications; see DESIGN.md. Genuine defects found by the checks were repaired in /repo by 'fix:' commits and are listed in known_findings.json.",
        "not_applicable": [{"property_id": k, "reason": v} for k, v in sorted(na.items()) if k not in allc],
    }
    (V / "MANIFEST.json").write_text(json.dumps(m, indent=1))
    import jsonschema
    jsonschema.validate(m, json.load(open("/root/.vp/MANIFEST.schema.json")))
    print("MANIFEST.json written:", len(checks), "checks,", len(m["not_applicable"]), "not applicable")

main()
