"""Writes seeded/<id>/meta.json and seeded/RESULTS.md from the agent's notes and my own verification logs."""
import json, re, glob, os
from pathlib import Path
S = Path("/verif/seeded")
rows = []
for d in sorted(S.iterdir()):
    if not d.is_dir():
        continue
    am = {}
    if (d / "agent_meta.json").exists():
        try:
            am = json.loads((d / "agent_meta.json").read_text())
        except Exception:
            am = {}
    demo_u = demo_c = None
    suite = (d / "suite.log").read_text().strip().splitlines() if (d / "suite.log").exists() else []
    ver = Path(f"/tmp/mw/verify_{d.name}.log")
    if ver.exists():
        m = re.search(r"demo unchanged=(\d+) changed=(\d+)", ver.read_text())
        if m:
            demo_u, demo_c = int(m.group(1)), int(m.group(2))
    if demo_u is None and (d / "demo_unchanged.log").exists() and (d / "demo_changed.log").exists():
        # exit codes are not stored in the logs; the verify step printed them - fall back to "see logs"
        demo_u, demo_c = "see demo_unchanged.log", "see demo_changed.log"
    detect = {}
    for f in sorted(d.glob("detect_*.log")):
        txt = f.read_text()
        prop, tier = re.match(r"detect_(C\d+)_(\w+)\.log", f.name).groups()
        sigs = re.findall(r"signature: (.*)", txt)
        detect[f"{prop}/{tier}"] = {"violations": len(re.findall(r"^VIOLATION", txt, re.M)),
                                    "first_signatures": sigs[:3]}
    prop = am.get("property", d.name[:3])
    meta = {
        "id": d.name, "property": prop,
        "summary": am.get("summary", ""), "needs": am.get("needs", ""), "files": am.get("files", []),
        "origin": "written by an independent sub-agent given only the property text and a scratch worktree",
        "verified_by_me": {
            "demo_exit_on_unchanged_tree": demo_u, "demo_exit_on_changed_tree": demo_c,
            "suite": suite[:2],
            "how": "harness/mutant.sh verify <id>: scratch worktree of /repo HEAD + patch; demo.py on /repo and on the worktree; full pinned pytest command on the worktree compared with BASELINE.json stable_pass",
        },
        "detection": detect,
        "how_detected": "harness/mutant.sh detect <id> <property>: scratch worktree of /repo HEAD + patch, VERIF_REPO=<worktree> ./check <property> --tier quick (INPLACE=1: git -C /repo apply patch.diff ; ./check ; git -C /repo checkout -- .); harness/mutant_all.sh re-detects all of them",
    }
    (d / "meta.json").write_text(json.dumps(meta, indent=1))
    best = [k for k, v in detect.items() if v["violations"] > 0]
    rows.append((d.name, prop, (am.get("summary", "") or "")[:110], demo_u, demo_c, (suite[0] if suite else "not run")[:60],
                 ", ".join(best) or "MISSED", "; ".join(detect[best[0]]["first_signatures"][:1])[:90] if best else ""))
out = ["# Seeded changes: verification and detection", "",
       "| id | property | change | demo exit (unchanged / changed) | suite on changed tree | detected by | first signature |",
       "|----|----------|--------|-------------------------------|-----------------------|-------------|-----------------|"]
for r in rows:
    out.append(f"| {r[0]} | {r[1]} | {r[2]} | {r[3]} / {r[4]} | {r[5]} | {r[6]} | {r[7]} |")
(S / "RESULTS.md").write_text("\n".join(out) + "\n")
print("\n".join(out[-len(rows):]))
