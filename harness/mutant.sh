#!/bin/bash
# usage: mutant.sh verify <ID> [srcdir]   -- confirm demo + test-suite in a scratch worktree
#        mutant.sh detect <ID> <prop> [tier] -- apply to /repo, run ./check <prop>, undo
set -u
cmd=$1; id=$2
S=/verif/seeded/$id
case $cmd in
 import)
   src=$3
   mkdir -p $S; cp -r $src/patch.diff $src/demo.py $S/ 2>/dev/null; [ -d $src/stubs ] && cp -r $src/stubs $S/; cp $src/meta.json $S/agent_meta.json 2>/dev/null
   ;;
 verify)
   wt=/tmp/mw/$id; rm -rf $wt; git -C /repo worktree prune
   git -C /repo worktree add --detach $wt HEAD >/dev/null 2>&1 || { echo "worktree failed"; exit 2; }
   git -C $wt apply $S/patch.diff || { echo "PATCH-DOES-NOT-APPLY"; git -C /repo worktree remove --force $wt; exit 3; }
   (cd $S && PYTHONPATH= timeout 900 /venv/bin/python demo.py /repo > $S/demo_unchanged.log 2>&1); u=$?
   (cd $S && PYTHONPATH= timeout 900 /venv/bin/python demo.py $wt > $S/demo_changed.log 2>&1); c=$?
   echo "demo unchanged=$u changed=$c"
   if [ "${SKIP_SUITE:-0}" != "1" ]; then
     (cd $wt && PYTHONPATH=$wt/src timeout 3000 /venv/bin/python -m pytest -q -p no:cacheprovider --timeout=900 --continue-on-collection-errors --junitxml=/tmp/mw/$id.junit.xml > /tmp/mw/$id.pytest.log 2>&1)
     /venv/bin/python /verif/harness/baseline_check.py /tmp/mw/$id.junit.xml > $S/suite.log 2>&1; s=$?
     tail -1 /tmp/mw/$id.pytest.log >> $S/suite.log
     echo "suite rc=$s: $(head -1 $S/suite.log)"
   fi
   git -C /repo worktree remove --force $wt; rm -f /tmp/mw/$id.junit.xml /tmp/mw/$id.pytest.log
   ;;
 detect)
   # default: a scratch worktree + VERIF_REPO (does not disturb /repo, several can run at once);
   # with INPLACE=1 exactly as the brief describes: git -C /repo apply ; ./check ; git -C /repo checkout -- .
   prop=$3; tier=${4:-quick}
   if [ "${INPLACE:-0}" = "1" ]; then
     git -C /repo diff --quiet || { echo "/repo dirty"; exit 2; }
     git -C /repo apply $S/patch.diff || { echo "PATCH-DOES-NOT-APPLY"; exit 3; }
     (cd /verif && ./check $prop --tier $tier > $S/detect_${prop}_$tier.log 2>&1); rc=$?
     git -C /repo checkout -- .
   else
     wt=/tmp/mw/det_${id}_$prop; rm -rf $wt; git -C /repo worktree prune
     git -C /repo worktree add --detach $wt HEAD >/dev/null 2>&1 || { echo "worktree failed"; exit 2; }
     git -C $wt apply $S/patch.diff || { echo "PATCH-DOES-NOT-APPLY"; git -C /repo worktree remove --force $wt; exit 3; }
     (cd /verif && VERIF_EVIDENCE_DIR=/verif/.work/evidence-$id VERIF_REPO=$wt ./check $prop --tier $tier > $S/detect_${prop}_$tier.log 2>&1); rc=$?
     git -C /repo worktree remove --force $wt
   fi
   echo "check $prop ($tier) rc=$rc; violations: $(grep -c '^VIOLATION' $S/detect_${prop}_$tier.log)"
   grep -A2 '^VIOLATION' $S/detect_${prop}_$tier.log | cut -c1-300 | head -9
   grep 'MACHINERY' -A5 $S/detect_${prop}_$tier.log | head -8
   ;;
esac
