"""Extra parts of C15: dtype-spelling cases (Dtypes.tla), the sampling call's output-namespace
option, proposal outputs consumed in every sample namespace, precision of populations in runs."""
from __future__ import annotations

import random

import numpy as np

import smcdrv
import tlacases


def _native(ns, width):
    name = f"float{width}"
    if ns == "torch":
        import torch
        return getattr(torch, name)
    if ns == "jax":
        import jax.numpy as jnp
        smcdrv.get_xp("jax")
        return jnp.dtype(name)
    return np.dtype(name)


def _spell(spelling, src, width):
    name = f"float{width}"
    if spelling == "name":
        return name
    if spelling == "qualified":
        return {"numpy": "numpy.", "torch": "torch.", "jax": "jax.numpy."}[src] + name
    if spelling == "np_type":
        return getattr(np, name)
    if spelling == "np_dtype":
        return np.dtype(name)
    return _native(src, width)


def _usable_width(xp, dtype):
    a = xp.asarray([1.0, 2.0], dtype=dtype)
    return smcdrv.width_of(a)


def dtype_cases(verdict):
    from aspire.utils import convert_dtype, decode_dtype, encode_dtype, resolve_dtype
    cases, r, n = tlacases.export_cases("Dtypes", {}, name="dtypes")
    for c in cases:
        xp = smcdrv.get_xp(c["dst"])
        scen = {"builder": "dtype_case", "params": c}
        try:
            if c["fn"] == "resolve":
                sp = _spell(c["spelling"], c["src"], c["width"])
                if c["spelling"] == "native" and c["src"] != c["dst"]:
                    continue        # a foreign dtype object goes through convert_dtype (separate cases)
                if c["spelling"] == "qualified" and c["src"] != c["dst"]:
                    pass            # "torch.float32" resolved for numpy: the name is what counts
                got = _usable_width(xp, resolve_dtype(sp, xp))
            elif c["fn"] == "convert":
                got = _usable_width(xp, convert_dtype(_native(c["src"], c["width"]), xp))
            else:
                enc = encode_dtype(xp, _native(c["src"], c["width"]))
                got = _usable_width(xp, decode_dtype(xp, enc))
        except Exception as ex:
            verdict.violation(f"DtypeHelpers|{c['fn']}|{c['spelling']}|{c['src']}->{c['dst']}|{type(ex).__name__}",
                              f"{c['fn']}({c['spelling']} float{c['width']} of {c['src']}) for {c['dst']} raised {type(ex).__name__}: {str(ex)[:120]}", scen)
            continue
        if got != c["expect"]:
            verdict.violation(f"DtypeHelpers|{c['fn']}|{c['spelling']}|{c['src']}->{c['dst']}|width",
                              f"{c['fn']}({c['spelling']} float{c['width']} of {c['src']}) for {c['dst']} gives width {got}", scen)
    return {"dtype_cases": n, "tlc_states": r.distinct, "tlc_transitions": r.generated}


class FakeFlow:
    """plain object with the proposal interface, emitting arrays of a chosen namespace / width"""

    def __init__(self, ns, width, dims=2, seed=3):
        self.xp = smcdrv.get_xp(ns)
        self.dt = f"float{width}"
        self.dims = dims
        self.rng = np.random.default_rng(seed)

    def _arr(self, v):
        return self.xp.asarray(np.asarray(v, dtype=self.dt))

    def sample_and_log_prob(self, n):
        x = self.rng.normal(size=(n, self.dims))
        lq = -0.5 * (x**2).sum(-1) - self.dims * 0.9189385332046727
        return self._arr(x), self._arr(lq)

    def log_prob(self, x):
        x = np.asarray(smcdrv.to_np(x), dtype=float)
        return self._arr(-0.5 * (x**2).sum(-1) - self.dims * 0.9189385332046727)


def output_namespace(verdict, tier):
    """Aspire.sample_posterior(xp=target): succeeds for every ordered pair, keeps values, fields, width."""
    from aspire import Aspire
    n = 0
    for src in ("numpy", "torch", "jax"):
        for dst in ("numpy", "torch", "jax"):
            for width in (32, 64):
                for flow_ns in (("numpy", "torch", "jax") if tier != "quick" else (src,)):
                    n += 1
                    scen = {"builder": "output_namespace", "params": {"src": src, "dst": dst, "width": width, "flow_ns": flow_ns}}
                    sxp, dxp = smcdrv.get_xp(src), smcdrv.get_xp(dst)

                    def ll(s):
                        return s.xp.asarray(-0.5 * ((smcdrv.to_np(s.x) - 0.3) ** 2).sum(-1), dtype=s.dtype)

                    def lp(s):
                        return s.xp.asarray(-0.1 * (smcdrv.to_np(s.x) ** 2).sum(-1), dtype=s.dtype)
                    try:
                        a = Aspire(log_likelihood=ll, log_prior=lp, dims=2, parameters=["a", "b"],
                                   flow=FakeFlow(flow_ns, width), xp=sxp, dtype=f"float{width}")
                        ref = a.sample_posterior(n_samples=16)
                        a2 = Aspire(log_likelihood=ll, log_prior=lp, dims=2, parameters=["a", "b"],
                                    flow=FakeFlow(flow_ns, width), xp=sxp, dtype=f"float{width}")
                        if (n % 2) == 0:
                            out = a2.sample_posterior(n_samples=16, xp=dxp)
                        else:       # the same call when the history is asked for as well
                            out, _hist = a2.sample_posterior(n_samples=16, xp=dxp, return_history=True)
                    except Exception as ex:
                        verdict.violation(f"ConvertPreserves|sample_posterior|{src}->{dst}|{type(ex).__name__}",
                                          f"sample_posterior(xp={dst}) with samples in {src} float{width} (proposal arrays in {flow_ns}) raised {type(ex).__name__}: {str(ex)[:150]}", scen)
                        continue
                    probs = []
                    if smcdrv.ns_of(out.x) != dst:
                        probs.append(f"namespace {smcdrv.ns_of(out.x)}")
                    if smcdrv.width_of(out.x) != width:
                        probs.append(f"width {smcdrv.width_of(out.x)} (requested {width})")
                    for f in ("x", "log_likelihood", "log_prior", "log_q", "log_w"):
                        u, v = getattr(ref, f, None), getattr(out, f, None)
                        if (u is None) != (v is None):
                            probs.append(f"field {f} presence")
                        elif u is not None and not np.array_equal(np.asarray(smcdrv.to_np(u), dtype=np.float64), np.asarray(smcdrv.to_np(v), dtype=np.float64)):
                            probs.append(f"field {f} values")
                    le_r, le_o = ref.log_evidence, out.log_evidence
                    if (le_r is None) != (le_o is None) or (le_r is not None and float(smcdrv.to_np(le_r)) != float(smcdrv.to_np(le_o))):
                        probs.append("log_evidence")
                    if probs:
                        verdict.violation(f"ConvertPreserves|sample_posterior|{src}->{dst}|" + probs[0].split(" ")[0],
                                          f"sample_posterior(xp={dst}) from {src} float{width}: " + "; ".join(probs), scen)
    return {"output_namespace_cases": n}


def proposal_consumable(verdict, tier):
    """outputs of the real flow back-ends can be consumed in every sample namespace (incl. the SMC target)"""
    from aspire.samples import Samples
    n = 0
    flows = {}
    try:
        from aspire.flows.torch.flows import ZukoFlow
        flows["zuko"] = lambda w: ZukoFlow(2, seed=1, dtype=f"float{w}", hidden_features=[4])
    except Exception:
        pass
    try:
        import jax
        smcdrv.get_xp("jax")
        from aspire.flows.jax.flows import FlowJax
        flows["flowjax"] = lambda w: FlowJax(2, key=jax.random.key(1), dtype=f"float{w}", nn_width=4, nn_depth=1)
    except Exception:
        pass
    for name, mk in flows.items():
        for w in (32, 64):
            fl = mk(w)
            for ns in ("numpy", "torch", "jax"):
                n += 1
                xp = smcdrv.get_xp(ns)
                scen = {"builder": "proposal_consumable", "params": {"flow": name, "width": w, "ns": ns}}
                try:
                    x, lq = fl.sample_and_log_prob(8)
                    s = Samples(x, log_q=lq, xp=xp, dtype=f"float{w}")
                    lp2 = fl.log_prob(s.x)
                    s2 = Samples(s.x, log_q=s.array_to_namespace(lp2), xp=xp, dtype=f"float{w}")
                    if smcdrv.ns_of(s2.log_q) != ns or smcdrv.width_of(s2.log_q) != w:
                        verdict.violation(f"ProposalConsumable|{name}|{ns}|meta", f"{name} float{w} output consumed in {ns}: got {smcdrv.ns_of(s2.log_q)}/{smcdrv.width_of(s2.log_q)}", scen)
                    if not np.allclose(smcdrv.to_np(s2.log_q), smcdrv.to_np(lq), rtol=1e-4 if w == 32 else 1e-9, atol=1e-5 if w == 32 else 1e-9):
                        verdict.violation(f"ProposalConsumable|{name}|{ns}|values", f"{name} float{w}: log_prob at drawn samples differs from returned log_q when consumed in {ns}", scen)
                    # the SMC kernel target path: SMCSampler.log_prob with this proposal
                    from aspire.samplers.smc.minipcn import MiniPCNSMC
                    smp = MiniPCNSMC(log_likelihood=lambda q: q.xp.asarray(np.zeros(len(q.x)), dtype=q.dtype),
                                     log_prior=lambda q: q.xp.asarray(np.zeros(len(q.x)), dtype=q.dtype),
                                     dims=2, prior_flow=fl, xp=xp, dtype=f"float{w}")
                    v = smp.log_prob(s.x, beta=0.5)
                    if not np.all(np.isfinite(smcdrv.to_np(v))):
                        verdict.violation(f"ProposalConsumable|{name}|{ns}|target", "non-finite tempered target from a finite proposal", scen)
                except Exception as ex:
                    verdict.violation(f"ProposalConsumable|{name}|{ns}|{type(ex).__name__}",
                                      f"{name} float{w} proposal output cannot be consumed in the {ns} namespace: {type(ex).__name__}: {str(ex)[:150]}", scen)
    return {"proposal_consumable_cases": n}


def precision_in_runs(verdict, tier, seed):
    import smc_checks
    rnd = random.Random(seed + 5)
    specs = smc_checks.corpus_general(tier, seed, rnd, 120 if tier == "quick" else 1500)
    specs += smc_checks.corpus_calls(tier, seed, rnd, 40 if tier == "quick" else 600)
    groups = smc_checks.build_groups(specs)
    errs = [g for g in groups if "error" in g]
    if errs:
        raise tlacases.MachineryError("corpus build failed:\n" + errs[0]["error"])
    verdicts, s, t = smc_checks.validate(groups, "C15runs")
    for g in groups:
        for (ri, clause) in verdicts[g["id"]]:
            if clause == "PrecisionKept":
                verdict.violation(smc_checks.signature(clause, g, ri),
                                  f"PrecisionKept failed on a real {g['cfg']['sampler']} run ({g['cfg']['ns']}, dtype {g['cfg']['dtype']}): a population at some seam has another float width / namespace than requested",
                                  g.get("spec"))
    return {"runs_validated_for_precision": sum(len(g["runs"]) for g in groups), "tlc_states": s, "tlc_transitions": t}


def flow_preconditioning_precision(verdict, tier):
    """preconditioning="flow": the particles go through a second (real, zuko) flow at every mutation;
    the requested precision - in every accepted spelling - must be the precision of the values."""
    from aspire import Aspire
    import minipcn as minipcn_stub
    minipcn_stub.reset()
    n = 0
    for ns in ("numpy", "torch"):
        for width in (64, 32):
            for spelling in ("name", "np_dtype", "native"):
                n += 1
                xp = smcdrv.get_xp(ns)
                dt = _spell(spelling, ns, width)
                scen = {"builder": "flow_precond_precision", "params": {"ns": ns, "width": width, "spelling": spelling}}

                def ll(s):
                    return s.xp.asarray(-0.5 * ((smcdrv.to_np(s.x) - 0.3) ** 2).sum(-1) / 0.49, dtype=s.dtype)

                def lp(s):
                    return s.xp.asarray(-0.1 * (smcdrv.to_np(s.x) ** 2).sum(-1), dtype=s.dtype)
                try:
                    a = Aspire(log_likelihood=ll, log_prior=lp, dims=2, parameters=["a", "b"],
                               flow=FakeFlow(ns, width), flow_backend="zuko", xp=xp, dtype=dt,
                               hidden_features=[4])
                    out, hist = a.sample_posterior(n_samples=12, sampler="smc", adaptive=False, n_steps=2,
                                                   preconditioning="flow", return_history=True,
                                                   preconditioning_kwargs={"fit_kwargs": {"n_epochs": 2, "batch_size": 12}},
                                                   sampler_kwargs={"n_steps": 2}, rng=np.random.default_rng(5))
                except Exception as ex:
                    verdict.violation(f"PrecisionKept|flow-preconditioning|{ns}|{spelling}|{type(ex).__name__}",
                                      f"SMC with preconditioning='flow' ({ns}, float{width} spelled as {spelling}) raised {type(ex).__name__}: {str(ex)[:150]}", scen)
                    continue
                pops = list(getattr(hist, "sample_history", [])) + [out]
                bad = [i for i, p_ in enumerate(pops) if smcdrv.effective_width(p_.x) != width or smcdrv.ns_of(p_.x) != ns]
                if bad:
                    verdict.violation(f"PrecisionKept|flow-preconditioning|{ns}|float{width}|{spelling}",
                                      f"SMC with preconditioning='flow' ({ns}, float{width} requested as {spelling} {dt!r}): populations {bad} of {len(pops)} hold "
                                      f"values of width {[smcdrv.effective_width(pops[i].x) for i in bad]} (container width {[smcdrv.width_of(pops[i].x) for i in bad]})", scen)
    return {"flow_preconditioning_precision_runs": n}


def run(verdict, tier, seed):
    out = {}
    # worker pools are forked: everything that forks runs before torch / jax are initialised
    # (with their thread pools) in this process
    d = precision_in_runs(verdict, tier, seed)
    a = dtype_cases(verdict)
    b = output_namespace(verdict, tier)
    c = proposal_consumable(verdict, tier)
    c.update(flow_preconditioning_precision(verdict, tier))
    out.update({k: v for k, v in a.items() if not k.startswith("tlc_")})
    out.update(b); out.update(c)
    out.update({k: v for k, v in d.items() if not k.startswith("tlc_")})
    out["extra_tlc_states"] = a["tlc_states"] + d["tlc_states"]
    return out
