"""C04 (spec -> code): Pipeline.tla gives (1) for every transform configuration the stage list
(order, column sets) and (2) closed-form expression trees for the elementary maps; the harness
checks the real CompositeTransform / FlowTransform against the composition of the public
elementary classes in the specification's order, and the elementary classes against the trees
evaluated in 50-digit arithmetic on the specification's lattice."""
from __future__ import annotations

import json
import math
import random
import time
from fractions import Fraction

import numpy as np
import mpmath as mpm

import common
import tlacases
from common import MachineryError, Verdict, write_evidence, STD_ASSUMPTIONS

mpm.mp.dps = 50
EPS_CLIP = 1e-6


def ev(t, env):
    op = t["op"]
    if op == "var":
        return env[t["name"]]
    if op == "const":
        return mpm.mpf(t["num"]) / mpm.mpf(t["den"])
    if op in ("add", "sub", "mul", "div", "pymod"):
        a, b = ev(t["a"], env), ev(t["b"], env)
        if op == "add":
            return a + b
        if op == "sub":
            return a - b
        if op == "mul":
            return a * b
        if op == "div":
            return a / b
        return a - b * mpm.floor(a / b)
    a = ev(t["a"], env)
    if op == "neg":
        return -a
    if op == "ln":
        return mpm.log(a)
    if op == "exp":
        return mpm.exp(a)
    if op == "sqrt":
        return mpm.sqrt(a)
    if op == "abs":
        return abs(a)
    if op == "erf":
        return mpm.erf(a)
    if op == "erfinv":
        return mpm.erfinv(a)
    if op == "pi":
        return mpm.pi
    if op == "clip_eps":
        e = env["eps"]
        return min(max(a, e), 1 - e)
    raise MachineryError(f"unknown op {op}")


def rat(r):
    return Fraction(r[0], r[1])


def np_dt(dt):
    return np.float32 if dt == "float32" else np.float64


def elementary_checks(verdict, spec, nss, tier, seed):
    import smcdrv
    from aspire.transforms import LogitTransform, ProbitTransform, PeriodicTransform, AffineTransform
    n_eval = 0
    distinct = set()
    EL = spec["elementary"]
    for ns in nss:
        xp = smcdrv.get_xp(ns)
        for dt in ("float64", "float32"):
            fdt = np_dt(dt)
            eps = float(np.finfo(fdt).eps)
            for b in spec["bounds"]:
                lo_r, hi_r = rat(b[0]), rat(b[1])
                lo = float(fdt(float(lo_r))); hi = float(fdt(float(hi_r)))
                if not (lo < hi) or fdt(hi - lo) == 0:
                    continue
                w = hi - lo
                # ---- bounded classes
                pts = []
                for f in spec["fracs"]:
                    x = float(fdt(lo + w * float(rat(f))))
                    if lo < x < hi:
                        pts.append(x)
                pts = sorted(set(pts))
                for cname, C in (("logit", LogitTransform), ("probit", ProbitTransform)):
                    scen = {"builder": "elementary", "params": {"cls": cname, "ns": ns, "dtype": dt, "bounds": b}}
                    try:
                        T = C(lower=[lo], upper=[hi], xp=xp, eps=EPS_CLIP, dtype=dt)
                        X = xp.asarray(np.asarray(pts, dtype=fdt).reshape(-1, 1))
                        y, j = T.forward(X)
                        xb, jb = T.inverse(y)
                        fit_y = T.fit(X)
                    except Exception as ex:
                        verdict.violation(f"NeverRaises|{cname}|{ns}/{dt}|{type(ex).__name__}", f"{cname} transform on bounds [{lo},{hi}] raised {type(ex).__name__}: {str(ex)[:120]}", scen)
                        continue
                    yn = np.asarray(smcdrv.to_np(y), dtype=np.float64).reshape(-1)
                    jn = np.asarray(smcdrv.to_np(j), dtype=np.float64).reshape(-1)
                    xbn = np.asarray(smcdrv.to_np(xb), dtype=np.float64).reshape(-1)
                    jbn = np.asarray(smcdrv.to_np(jb), dtype=np.float64).reshape(-1)
                    if not np.array_equal(np.asarray(smcdrv.to_np(fit_y)), np.asarray(smcdrv.to_np(y))):
                        verdict.violation(f"FitIsForward|{cname}|{ns}/{dt}", "fit(x) is not bit-equal to forward(x)[0]", scen)
                    # a log-Jacobian *narrower* than the transform's precision loses accuracy (wider is harmless)
                    if smcdrv.width_of(j) < (32 if dt == "float32" else 64) or smcdrv.width_of(y) != (32 if dt == "float32" else 64):
                        verdict.violation(f"ElemJacobian|dtype|{cname}|{ns}/{dt}", f"outputs have width {smcdrv.width_of(y)}/{smcdrv.width_of(j)}", scen)
                    for k, x in enumerate(pts):
                        n_eval += 1
                        u = (x - lo) / w
                        margin = min(u, 1 - u)
                        env = {"x": mpm.mpf(x), "lower": mpm.mpf(lo), "upper": mpm.mpf(hi), "eps": mpm.mpf(EPS_CLIP)}
                        if margin < 8 * EPS_CLIP or margin < 64 * eps:
                            # inside / next to the documented clipping margin: only sanity
                            if not (np.isfinite(yn[k]) and np.isfinite(jn[k])):
                                verdict.violation(f"ElemJacobian|nonfinite|{cname}|{ns}/{dt}", f"non-finite output at the clipping margin (u={u})", scen)
                            continue
                        distinct.add((cname, ns, dt, tuple(map(tuple, b)), k))
                        ye = float(ev(EL[cname]["fwd"], env)); je = float(ev(EL[cname]["jfwd"], env))
                        cond = 1.0 / margin       # d y / d u
                        tol_y = 256 * eps * (1 + abs(ye)) + 64 * eps * cond * (1 + max(abs(lo), abs(hi)) / w)
                        tol_j = 256 * eps * (1 + abs(je)) + 64 * eps * cond * (1 + max(abs(lo), abs(hi)) / w)
                        if not abs(yn[k] - ye) <= tol_y:
                            verdict.violation(f"ElemValue|{cname}|{ns}/{dt}", f"{cname}.forward({x}) on [{lo},{hi}] = {yn[k]!r}, closed form {ye!r}", scen)
                        if not abs(jn[k] - je) <= tol_j:
                            verdict.violation(f"ElemJacobian|forward|{cname}|{ns}/{dt}", f"{cname} forward log-Jacobian at {x} on [{lo},{hi}] = {jn[k]!r}, closed form {je!r}", scen)
                        envi = dict(env, y=mpm.mpf(float(yn[k])))
                        xe = float(ev(EL[cname]["inv"], envi)); jie = float(ev(EL[cname]["jinv"], envi))
                        tol_x = 256 * eps * w + 8 * eps * max(abs(lo), abs(hi))
                        if not abs(xbn[k] - xe) <= tol_x:
                            verdict.violation(f"ElemValue|inverse|{cname}|{ns}/{dt}", f"{cname}.inverse({yn[k]}) = {xbn[k]!r}, closed form {xe!r}", scen)
                        if not abs(jbn[k] - jie) <= tol_j:
                            verdict.violation(f"ElemJacobian|inverse|{cname}|{ns}/{dt}", f"{cname} inverse log-Jacobian at y={yn[k]} = {jbn[k]!r}, closed form {jie!r}", scen)
                        if not abs(xbn[k] - x) <= tol_x * 4 + 64 * eps * w / margin * 0:
                            verdict.violation(f"RoundTrip|{cname}|{ns}/{dt}", f"inverse(forward({x})) = {xbn[k]!r} on [{lo},{hi}]", scen)
                        if not abs(jbn[k] + jn[k]) <= 2 * tol_j:
                            verdict.violation(f"InvJacNeg|{cname}|{ns}/{dt}", f"inverse log-Jacobian {jbn[k]!r} is not minus the forward one {jn[k]!r} at x={x}", scen)
                # ---- inverse in the tails of the latent space (points no forward image reaches within the clipping
                # margin): the log-Jacobian keeps falling like the closed form, it is not frozen at the margin
                for cname, C in (("logit", LogitTransform), ("probit", ProbitTransform)):
                    tails = [-30.0, -20.0, -16.0, 16.0, 20.0, 30.0] if cname == "logit" else [-7.5, -6.5, -5.5, 5.5, 6.5, 7.5]
                    if dt == "float32":
                        tails = [-10.0, 10.0] if cname == "logit" else [-4.0, 4.0]      # single precision resolves less of the tail
                    scen = {"builder": "elementary_tails", "params": {"cls": cname, "ns": ns, "dtype": dt, "bounds": b}}
                    try:
                        T = C(lower=[lo], upper=[hi], xp=xp, eps=EPS_CLIP, dtype=dt)
                        T.fit(xp.asarray(np.asarray(pts[:2] or [lo + w / 2], dtype=fdt).reshape(-1, 1)))
                        xt, jt = T.inverse(xp.asarray(np.asarray(tails, dtype=fdt).reshape(-1, 1)))
                    except Exception as ex:
                        verdict.violation(f"NeverRaises|{cname}-tails|{ns}/{dt}|{type(ex).__name__}", f"{cname}.inverse in the tails raised {type(ex).__name__}: {str(ex)[:120]}", scen)
                        continue
                    jtn = np.asarray(smcdrv.to_np(jt), dtype=np.float64).reshape(-1)
                    for k, yv in enumerate(tails):
                        n_eval += 1
                        envi = {"y": mpm.mpf(yv), "lower": mpm.mpf(lo), "upper": mpm.mpf(hi), "eps": mpm.mpf(EPS_CLIP), "x": mpm.mpf(lo)}
                        jie = float(ev(EL[cname]["jinv"], envi))
                        if not (np.isfinite(jtn[k]) and abs(jtn[k] - jie) <= 1e-3 * (1 + abs(jie)) + (0.05 if dt == "float32" else 0.0)):
                            verdict.violation(f"ElemJacobian|inverse-tail|{cname}|{ns}/{dt}", f"{cname} inverse log-Jacobian at y={yv} on [{lo},{hi}] = {jtn[k]!r}, closed form {jie!r}", scen)
                # ---- periodic
                scen = {"builder": "elementary", "params": {"cls": "periodic", "ns": ns, "dtype": dt, "bounds": b}}
                wp = [float(fdt(lo + float(rat(q)) * 1.0)) for q in spec["wrappoints"] if abs(float(rat(q))) <= 64]
                wp += [float(fdt(lo + k * w)) for k in (-3, -1, 0, 1, 2)]          # exact multiples of the period
                wp += [float(np.nextafter(fdt(lo), fdt(-np.inf))), float(np.nextafter(fdt(hi), fdt(-np.inf))), float(fdt(lo - w * 2.0 ** -60)),
                       float(fdt(lo - 1e-17)), float(fdt(hi)), float(fdt(lo))]
                wp = sorted(set(wp))
                try:
                    T = PeriodicTransform(lower=[lo], upper=[hi], xp=xp, dtype=dt)
                    X = xp.asarray(np.asarray(wp, dtype=fdt).reshape(-1, 1))
                    y, j = T.forward(X)
                    xb, jb = T.inverse(y)
                    fy = T.fit(X)
                except Exception as ex:
                    verdict.violation(f"NeverRaises|periodic|{ns}/{dt}|{type(ex).__name__}", f"PeriodicTransform raised {type(ex).__name__}: {str(ex)[:120]}", scen)
                    continue
                yn = np.asarray(smcdrv.to_np(y), dtype=np.float64).reshape(-1)
                if not np.array_equal(np.asarray(smcdrv.to_np(fy)), np.asarray(smcdrv.to_np(y))):
                    verdict.violation(f"FitIsForward|periodic|{ns}/{dt}", "fit(x) is not bit-equal to forward(x)[0]", scen)
                if np.any(np.asarray(smcdrv.to_np(j)) != 0) or np.any(np.asarray(smcdrv.to_np(jb)) != 0) or len(smcdrv.to_np(j)) != len(wp):
                    verdict.violation(f"WrapZeroJac|{ns}/{dt}", "periodic log-Jacobian is not identically zero", scen)
                for k, x in enumerate(wp):
                    n_eval += 1
                    distinct.add(("periodic", ns, dt, tuple(map(tuple, b)), k))
                    if not (lo <= yn[k] < hi):
                        verdict.violation(f"WrapRange|{ns}/{dt}", f"wrap({x!r}) on [{lo!r}, {hi!r}) = {yn[k]!r} is outside [lower, upper)", scen)
                        continue
                    yt = Fraction(lo) + ((Fraction(x) - Fraction(lo)) % (Fraction(hi) - Fraction(lo)))
                    d = abs(Fraction(float(yn[k])) - yt)
                    d = min(d, abs(d - (Fraction(hi) - Fraction(lo))))       # congruent modulo the period
                    if float(d) > 8 * eps * (abs(x) + abs(lo) + abs(hi) + w):
                        verdict.violation(f"WrapValue|{ns}/{dt}", f"wrap({x!r}) on [{lo},{hi}) = {yn[k]!r}, exact {float(yt)!r}", scen)
            # ---- affine
            rng = np.random.default_rng(seed + 3)
            for trial in range(3 if tier == "quick" else 10):
                data = (rng.normal(size=(16, 2)) * np.array([0.01, 300.0]) + np.array([5.0, -40.0])).astype(fdt)
                scen = {"builder": "elementary", "params": {"cls": "affine", "ns": ns, "dtype": dt, "trial": trial}}
                try:
                    T = AffineTransform(xp=xp, dtype=dt)
                    X = xp.asarray(data)
                    if trial % 2 == 1:
                        # the same object is fitted twice (as the samplers do at every mutation step)
                        T.fit(xp.asarray((data * 0.01 + 3.0).astype(fdt)))
                    fy = T.fit(X)
                    y, j = T.forward(X)
                    xb, jb = T.inverse(y)
                except Exception as ex:
                    verdict.violation(f"NeverRaises|affine|{ns}/{dt}|{type(ex).__name__}", f"AffineTransform raised {type(ex).__name__}: {str(ex)[:120]}", scen)
                    continue
                n_eval += data.size
                if not np.array_equal(np.asarray(smcdrv.to_np(fy)), np.asarray(smcdrv.to_np(y))):
                    verdict.violation(f"FitIsForward|affine|{ns}/{dt}", "fit(x) is not bit-equal to forward(x)[0]", scen)
                d64 = data.astype(np.float64)
                # location / scale the transform fitted (numpy and jax use the population standard
                # deviation, torch the sample one: either is a valid whitening); they must be the
                # moments of the fitting data up to that convention
                mean = [mpm.mpf(float(v)) for v in np.asarray(smcdrv.to_np(T._mean), dtype=np.float64)]
                std = [mpm.mpf(float(v)) for v in np.asarray(smcdrv.to_np(T._std), dtype=np.float64)]
                m_ref = d64.mean(0)
                s0, s1 = d64.std(0), d64.std(0, ddof=1)
                if not np.allclose([float(v) for v in mean], m_ref, rtol=1e3 * eps, atol=1e3 * eps * np.abs(m_ref).max()) or not (
                        np.allclose([float(v) for v in std], s0, rtol=2e3 * eps) or np.allclose([float(v) for v in std], s1, rtol=2e3 * eps)):
                    verdict.violation(f"ElemValue|affine-fit|{ns}/{dt}", "fitted location/scale are not the mean / standard deviation of the fitting data", scen)
                je = float(sum(ev(spec["elementary"]["affine"]["jfwd"], {"std": std[c]}) for c in range(2)))
                jn = np.asarray(smcdrv.to_np(j), dtype=np.float64)
                if not np.allclose(jn, je, rtol=0, atol=1e3 * eps * (1 + abs(je))):
                    verdict.violation(f"ElemJacobian|forward|affine|{ns}/{dt}", f"affine log-Jacobian {jn[0]!r} != -sum ln|std| = {je!r}", scen)
                if not np.allclose(np.asarray(smcdrv.to_np(jb), dtype=np.float64), -jn, rtol=0, atol=1e3 * eps * (1 + abs(je))):
                    verdict.violation(f"InvJacNeg|affine|{ns}/{dt}", "inverse log-Jacobian is not minus the forward one", scen)
                yn = np.asarray(smcdrv.to_np(y), dtype=np.float64)
                ye = np.array([[float(ev(spec["elementary"]["affine"]["fwd"], {"x": mpm.mpf(float(d64[r, c])), "mean": mean[c], "std": std[c]})) for c in range(2)] for r in range(len(d64))])
                if not np.allclose(yn, ye, rtol=0, atol=2e4 * eps * (1 + np.abs(ye).max())):
                    verdict.violation(f"ElemValue|affine|{ns}/{dt}", "affine forward differs from (x - mean)/std", scen)
                if not np.allclose(np.asarray(smcdrv.to_np(xb), dtype=np.float64), d64, rtol=1e3 * eps, atol=1e3 * eps * np.abs(d64).max()):
                    verdict.violation(f"RoundTrip|affine|{ns}/{dt}", "inverse(forward(x)) != x", scen)
    # ---- column law: a transform over several bounded parameters is the per-parameter transforms side
    # by side, its log-Jacobian the *sum* of theirs - also when the product of the widths leaves the
    # range of the float type (three widths of 2^45 in float32, 2^400 in float64, and their reciprocals)
    for ns in nss:
        xp = smcdrv.get_xp(ns)
        for dt, exps in (("float32", (45, -50, 10)), ("float64", (400, -400, 10))):
            fdt = np_dt(dt)
            eps = float(np.finfo(fdt).eps)
            for ex in exps:
                widths = [2.0 ** ex, 2.0 ** (ex + 1), 2.0 ** (ex - 1)]
                lows = [-w / 4 for w in widths]
                his = [lo_ + w for lo_, w in zip(lows, widths)]
                fr = np.array([[0.25, 0.5, 0.75], [0.5, 0.125, 0.375], [0.75, 0.25, 0.5]])
                X = np.asarray([[lo_ + w * f for lo_, w, f in zip(lows, widths, row)] for row in fr], dtype=fdt)
                for cname, C in (("logit", LogitTransform), ("probit", ProbitTransform)):
                    scen = {"builder": "elementary_columns", "params": {"cls": cname, "ns": ns, "dtype": dt, "exp": ex}}
                    try:
                        T = C(lower=np.asarray(lows, dtype=fdt), upper=np.asarray(his, dtype=fdt), xp=xp, eps=EPS_CLIP, dtype=dt)
                        y, j = T.forward(xp.asarray(X.copy()))
                        xb, jb = T.inverse(y)
                        jsum = np.zeros(len(X)); jbsum = np.zeros(len(X)); ycols = []
                        for kcol in range(3):
                            T1 = C(lower=[lows[kcol]], upper=[his[kcol]], xp=xp, eps=EPS_CLIP, dtype=dt)
                            y1, j1 = T1.forward(xp.asarray(X[:, kcol:kcol + 1].copy()))
                            _, jb1 = T1.inverse(y1)
                            ycols.append(np.asarray(smcdrv.to_np(y1), dtype=np.float64).reshape(-1))
                            jsum += np.asarray(smcdrv.to_np(j1), dtype=np.float64).reshape(-1)
                            jbsum += np.asarray(smcdrv.to_np(jb1), dtype=np.float64).reshape(-1)
                    except Exception as exn:
                        verdict.violation(f"NeverRaises|{cname}-columns|{ns}/{dt}|{type(exn).__name__}", f"{cname} over three parameters of width ~2^{ex} raised {type(exn).__name__}: {str(exn)[:120]}", scen)
                        continue
                    n_eval += len(X)
                    jn = np.asarray(smcdrv.to_np(j), dtype=np.float64).reshape(-1)
                    jbn = np.asarray(smcdrv.to_np(jb), dtype=np.float64).reshape(-1)
                    yn = np.asarray(smcdrv.to_np(y), dtype=np.float64)
                    tol = 64 * eps * (1 + np.abs(jsum).max())
                    if not np.array_equal(yn, np.stack(ycols, axis=1)):
                        verdict.violation(f"CompositeOrder|columns|{cname}|{ns}/{dt}", f"{cname} over three parameters is not the per-parameter transform side by side (widths ~2^{ex})", scen)
                    if not (np.all(np.isfinite(jn)) and np.allclose(jn, jsum, rtol=0, atol=tol)):
                        verdict.violation(f"JacAccumulates|columns|forward|{cname}|{ns}/{dt}", f"forward log-Jacobian {jn.tolist()} of {cname} over three parameters of width ~2^{ex} is not the sum of the per-parameter terms {jsum.tolist()}", scen)
                    if not (np.all(np.isfinite(jbn)) and np.allclose(jbn, jbsum, rtol=0, atol=tol)):
                        verdict.violation(f"JacAccumulates|columns|inverse|{cname}|{ns}/{dt}", f"inverse log-Jacobian {jbn.tolist()} of {cname} over three parameters of width ~2^{ex} is not the sum of the per-parameter terms {jbsum.tolist()}", scen)
    return n_eval, len(distinct)


def flow_map_checks(verdict, nss, tier, seed):
    """the flow-based preconditioning map (FlowPreconditioningTransform: a data transform followed by a
    trained flow) obeys the same bijection laws: round trip, inverse log-Jacobian = minus the forward one,
    and the forward log-Jacobian is log|det| of the derivative (central finite differences)"""
    import smcdrv
    from aspire.transforms import FlowPreconditioningTransform
    rng = np.random.default_rng(seed + 23)
    n = 0
    params = ["q", "alpha"]
    bounds = {"q": [-3.0, 5.0], "alpha": [0.0, 2.0]}
    x = np.stack([rng.uniform(-2.5, 4.5, 48), rng.uniform(0.1, 1.9, 48)], axis=1)
    for backend, kw in (("verifflow", {}), ("zuko", {"flow_kwargs": {"hidden_features": [8]}, "fit_kwargs": {"n_epochs": 1, "batch_size": 24}})):
        for ns in nss:
            xp = smcdrv.get_xp(ns)
            scen = {"builder": "flow_map", "params": {"backend": backend, "ns": ns}}
            try:
                T = FlowPreconditioningTransform(parameters=params, prior_bounds=bounds, bounded_to_unbounded=True, bounded_transform="logit",
                                                 affine_transform=True, xp=xp, dtype="float64", flow_backend=backend, **kw)
                T.fit(xp.asarray(x.copy()))
                y, j = T.forward(xp.asarray(x[:12].copy()))
                xb, jb = T.inverse(y)
                yn = np.asarray(smcdrv.to_np(y), dtype=np.float64)
                cols = []
                for kdim in range(2):
                    h = 1e-6 * (1.0 + np.abs(x[:12, kdim]))
                    xq, xm = x[:12].copy(), x[:12].copy()
                    xq[:, kdim] += h; xm[:, kdim] -= h
                    yq = np.asarray(smcdrv.to_np(T.forward(xp.asarray(xq))[0]), dtype=np.float64)
                    ym = np.asarray(smcdrv.to_np(T.forward(xp.asarray(xm))[0]), dtype=np.float64)
                    cols.append((yq - ym) / (2 * h)[:, None])
                sign, logdet = np.linalg.slogdet(np.stack(cols, axis=2))
            except Exception as ex:
                verdict.violation(f"NeverRaises|flow-map|{backend}|{ns}|{type(ex).__name__}", f"flow preconditioning map ({backend}, samples in {ns}) raised {type(ex).__name__}: {str(ex)[:140]}", scen)
                continue
            n += 12
            jn = np.asarray(smcdrv.to_np(j), dtype=np.float64).reshape(-1)
            jbn = np.asarray(smcdrv.to_np(jb), dtype=np.float64).reshape(-1)
            xbn = np.asarray(smcdrv.to_np(xb), dtype=np.float64)
            if not np.allclose(xbn, x[:12], rtol=0, atol=1e-7):
                verdict.violation(f"RoundTrip|flow-map|{backend}|{ns}", f"inverse(forward(x)) != x for the flow preconditioning map (max diff {np.max(np.abs(xbn - x[:12])):.3g})", scen)
            if not np.allclose(jbn, -jn, rtol=0, atol=1e-7 * (1 + np.abs(jn).max())):
                verdict.violation(f"InvJacNeg|flow-map|{backend}|{ns}", f"inverse log-Jacobian is not minus the forward one for the flow preconditioning map (max diff {np.max(np.abs(jbn + jn)):.3g})", scen)
            if not np.allclose(logdet, jn, rtol=0, atol=2e-5 * (1 + np.abs(jn).max())):
                verdict.violation(f"ElemJacobian|flow-map|{backend}|{ns}", f"forward log-Jacobian of the flow preconditioning map is not log|det dy/dx| (finite differences; max diff {np.max(np.abs(logdet - jn)):.3g})", scen)
    return n


def structure_checks(verdict, spec, nss, tier, seed):
    import smcdrv
    from aspire.transforms import (AffineTransform, CompositeTransform, FlowTransform, LogitTransform,
                                   PeriodicTransform, ProbitTransform)
    rng = np.random.default_rng(seed + 17)
    n = 0
    kinds_bounds = {"periodic": (-1.0, 3.0), "bounded": (0.5, 4.0), "free": (-np.inf, np.inf)}
    cfgs = spec["configs"]
    if tier == "quick":
        rnd = random.Random(seed)
        cfgs = [c for c in cfgs if c["d"] <= 2] + rnd.sample([c for c in cfgs if c["d"] == 3], 150)
    for ci, c in enumerate(cfgs):
        for ns in nss:
            for dt in (("float64", "float32") if (tier != "quick" or ci % 4 == 0) else ("float64",)):
                n += 1
                xp = smcdrv.get_xp(ns)
                fdt = np_dt(dt)
                eps = float(np.finfo(fdt).eps)
                d = c["d"]
                params = [f"p{i}" for i in range(d)]
                # bounds belong to parameter *names*: the mapping is written in another order than the
                # parameter list for part of the configurations (a dict has no meaningful order; HDF5
                # returns keys alphabetically on reload)
                order = list(range(d)) if ci % 3 == 0 else (list(range(d))[::-1] if ci % 3 == 1 else list(range(1, d)) + [0])
                bounds = {params[i]: list(kinds_bounds[c["kinds"][i]]) for i in order}
                periodic = [params[i] for i in range(d) if c["kinds"][i] == "periodic"]
                scen = {"builder": "structure", "params": {"config": {k: c[k] for k in ("d", "kinds", "b2u", "btrans", "affine", "flowt")}, "ns": ns, "dtype": dt}}
                cols = []
                for i in range(d):
                    lo, hi = kinds_bounds[c["kinds"][i]]
                    cols.append(rng.normal(0.5, 2.0, size=12) if not np.isfinite(lo) else rng.uniform(lo + 0.05, hi - 0.05, size=12))
                data = np.stack(cols, axis=1).astype(fdt)
                # the clipping margin requested by the caller (a fraction of the width) is the one applied:
                # default, much smaller and much larger, with two points between 1e-9 and 1e-6 of a bound
                ceps = [1e-6, 1e-9, 1e-3][ci % 3] if dt == "float64" else [1e-6, 1e-4, 1e-3][ci % 3]   # (1e-9 is below single precision)
                for i in range(d):
                    lo_, hi_ = kinds_bounds[c["kinds"][i]]
                    if c["kinds"][i] == "bounded" and dt == "float64":
                        data[0, i] = fdt(lo_ + (hi_ - lo_) * 3e-8)
                        data[1, i] = fdt(hi_ - (hi_ - lo_) * 3e-8)
                try:
                    if c["flowt"]:
                        T = FlowTransform(parameters=params, prior_bounds=bounds, bounded_to_unbounded=c["b2u"],
                                          bounded_transform=c["btrans"], affine_transform=c["affine"], xp=xp, dtype=dt, eps=ceps)
                    else:
                        T = CompositeTransform(parameters=params, periodic_parameters=periodic, prior_bounds=bounds,
                                               bounded_to_unbounded=c["b2u"], bounded_transform=c["btrans"],
                                               affine_transform=c["affine"], xp=xp, dtype=dt, eps=ceps)
                    X = xp.asarray(data)
                    if ci % 2 == 1:
                        # refit: first on other data, then on the data used below
                        T.fit(xp.asarray((data * 0.25 + (data.mean(0) * 0.75)).astype(fdt)))
                    fy = T.fit(xp.asarray(data.copy()))
                    y, j = T.forward(xp.asarray(data.copy()))
                    xb, jb = T.inverse(y)
                except Exception as ex:
                    verdict.violation(f"NeverRaises|composite|{ns}/{dt}|{type(ex).__name__}", f"composite transform {scen['params']['config']} raised {type(ex).__name__}: {str(ex)[:140]}", scen)
                    continue
                # the specification's composition of the public elementary classes
                cur = data.copy()
                jsum = np.zeros(len(cur), dtype=np.float64)
                built = []
                ok_build = True
                for st in c["stages"]:
                    idx = [q - 1 for q in st["cols"]]
                    lo = [kinds_bounds[c["kinds"][q]][0] for q in idx]
                    hi = [kinds_bounds[c["kinds"][q]][1] for q in idx]
                    if st["kind"] == "periodic":
                        E = PeriodicTransform(lower=np.asarray(lo, dtype=fdt), upper=np.asarray(hi, dtype=fdt), xp=xp, dtype=dt)
                    elif st["kind"] == "logit":
                        E = LogitTransform(lower=np.asarray(lo, dtype=fdt), upper=np.asarray(hi, dtype=fdt), xp=xp, eps=ceps, dtype=dt)
                    elif st["kind"] == "probit":
                        E = ProbitTransform(lower=np.asarray(lo, dtype=fdt), upper=np.asarray(hi, dtype=fdt), xp=xp, eps=ceps, dtype=dt)
                    else:
                        E = AffineTransform(xp=xp, dtype=dt)
                    sub = xp.asarray(np.ascontiguousarray(cur[:, idx]))
                    E.fit(sub)
                    ys, js = E.forward(sub)
                    cur[:, idx] = np.asarray(smcdrv.to_np(ys), dtype=fdt)
                    jsum = jsum + np.asarray(smcdrv.to_np(js), dtype=np.float64)
                    built.append((E, idx))
                yn = np.asarray(smcdrv.to_np(y))
                jn = np.asarray(smcdrv.to_np(j), dtype=np.float64).reshape(-1)
                want_w = 32 if dt == "float32" else 64
                if not np.array_equal(np.asarray(smcdrv.to_np(fy)), yn):
                    verdict.violation(f"FitIsForward|composite|{ns}/{dt}", f"fit(x) != forward(x)[0] for {scen['params']['config']}", scen)
                if yn.shape != cur.shape or not np.array_equal(yn.astype(np.float64), cur.astype(np.float64)):
                    verdict.violation(f"CompositeOrder|forward|{ns}/{dt}", f"forward(x) is not the composition of stages {[(s['kind'], s['cols']) for s in c['stages']]} for {scen['params']['config']}", scen)
                tolj = 8 * eps * (1 + np.abs(jsum).max()) * max(1, len(c["stages"]))
                if jn.shape != jsum.shape or not np.allclose(jn, jsum, rtol=0, atol=tolj):
                    verdict.violation(f"JacAccumulates|forward|{ns}/{dt}", f"forward log-Jacobian is not the sum of the stage terms for {scen['params']['config']} (max diff {np.max(np.abs(jn - jsum)) if jn.shape == jsum.shape else 'shape'})", scen)
                if c["stages"] and (smcdrv.width_of(j) < want_w or smcdrv.width_of(jb) < want_w):
                    verdict.violation(f"JacAccumulates|dtype|{ns}/{dt}", f"log-Jacobian of a {dt} transform has width {smcdrv.width_of(j)} (forward) / {smcdrv.width_of(jb)} (inverse)", scen)
                # inverse: reversed stage order
                back = np.asarray(smcdrv.to_np(y)).astype(fdt).copy()
                jback = np.zeros(len(back), dtype=np.float64)
                for (E, idx) in reversed(built):
                    sub = xp.asarray(np.ascontiguousarray(back[:, idx]))
                    xs, js = E.inverse(sub)
                    back[:, idx] = np.asarray(smcdrv.to_np(xs), dtype=fdt)
                    jback = jback + np.asarray(smcdrv.to_np(js), dtype=np.float64)
                xbn = np.asarray(smcdrv.to_np(xb))
                jbn = np.asarray(smcdrv.to_np(jb), dtype=np.float64).reshape(-1)
                if xbn.shape != back.shape or not np.array_equal(xbn.astype(np.float64), back.astype(np.float64)):
                    verdict.violation(f"CompositeOrder|inverse|{ns}/{dt}", f"inverse(y) is not the reversed composition for {scen['params']['config']}", scen)
                if jbn.shape != jback.shape or not np.allclose(jbn, jback, rtol=0, atol=tolj):
                    verdict.violation(f"JacAccumulates|inverse|{ns}/{dt}", f"inverse log-Jacobian is not the sum of the stage terms for {scen['params']['config']}", scen)
                # inverse on latent points that are NOT forward images: the periodic coordinates are moved
                # by arbitrary amounts in latent space (what a flow or a proposal hands to inverse()); the
                # result must be the reversed composition of the elementary classes and wrapped into [lo, hi)
                pcols = [i for i in range(d) if c["kinds"][i] == "periodic"]
                if pcols and not c["flowt"]:
                    wide = np.asarray(smcdrv.to_np(y)).astype(fdt).copy()
                    wide[:, pcols] = wide[:, pcols] + rng.normal(0.0, 6.0, size=(len(wide), len(pcols))).astype(fdt)
                    try:
                        xw, jw = T.inverse(xp.asarray(wide.copy()))
                    except Exception as ex:
                        verdict.violation(f"NeverRaises|composite-inverse-wide|{ns}/{dt}|{type(ex).__name__}", f"inverse raised {type(ex).__name__}: {str(ex)[:140]}", scen)
                        continue
                    backw = wide.copy()
                    for (E, idx) in reversed(built):
                        sub = xp.asarray(np.ascontiguousarray(backw[:, idx]))
                        xs, js = E.inverse(sub)
                        backw[:, idx] = np.asarray(smcdrv.to_np(xs), dtype=fdt)
                    xwn = np.asarray(smcdrv.to_np(xw)).astype(np.float64)
                    lo_p, hi_p = kinds_bounds["periodic"]
                    if xwn.shape != backw.shape or not (np.all(xwn[:, pcols] >= lo_p) and np.all(xwn[:, pcols] < hi_p + 8 * eps * abs(hi_p))):
                        verdict.violation(f"WrapRange|composite-inverse|{ns}/{dt}", f"inverse(y) leaves periodic coordinates outside [{lo_p}, {hi_p}): min {xwn[:, pcols].min()}, max {xwn[:, pcols].max()} for {scen['params']['config']}", scen)
                    elif not np.array_equal(xwn, backw.astype(np.float64)):
                        verdict.violation(f"CompositeOrder|inverse-wide|{ns}/{dt}", f"inverse(y) on arbitrary latent points is not the reversed composition for {scen['params']['config']}", scen)
                # laws on the real composite
                tolx = 4096 * eps * (1 + np.abs(data).max())
                # rows inside the requested clipping margin of a bound are outside the round-trip law
                inside = np.ones(len(data), dtype=bool)
                condrow = np.zeros(len(data))         # 1 - u is formed by cancellation: error eps / distance to the bound
                if c["b2u"]:
                    for i in range(d):
                        if c["kinds"][i] == "bounded":
                            lo_, hi_ = kinds_bounds["bounded"]
                            u_ = (data[:, i].astype(np.float64) - lo_) / (hi_ - lo_)
                            inside &= np.minimum(u_, 1 - u_) > 8 * max(ceps, eps)
                            condrow = np.maximum(condrow, 1.0 / np.maximum(np.minimum(u_, 1 - u_), 1e-300))
                xbn, jbn, jn_l, data_l = xbn[inside], jbn[inside], jn[inside], data[inside]
                if not np.allclose(xbn.astype(np.float64), data_l.astype(np.float64), rtol=0, atol=tolx):
                    verdict.violation(f"RoundTrip|composite|{ns}/{dt}", f"inverse(forward(x)) != x for {scen['params']['config']} with eps={ceps} (max diff {np.max(np.abs(xbn - data_l))})", scen)
                if not np.all(np.abs(jbn + jn_l) <= 64 * tolj + 64 * eps * condrow[inside]):
                    verdict.violation(f"InvJacNeg|composite|{ns}/{dt}", f"inverse log-Jacobian is not minus the forward one for {scen['params']['config']}", scen)
    return n


def main(prop, tier, seed, replay_path=None):
    t0 = time.time()
    verdict = Verdict(prop)
    consts = {"MaxDims": "= 3", "BoundsSet": "<- MCBounds", "Fracs": "<- MCFracs", "WrapPoints": "<- MCWrapPoints"}
    wd = common.workdir("pipeline")
    try:
        spec, r, ncfg = tlacases.export_cases("MC_Pipeline", consts, name="pipeline", timeout=3000)
    finally:
        common.cleanup(wd)
    nss = ["numpy", "torch", "jax"]
    n_el, n_dist = elementary_checks(verdict, spec, nss, tier, seed)
    n_st = structure_checks(verdict, spec, nss, tier, seed)
    n_st += flow_map_checks(verdict, nss, tier, seed)
    # the exact wrap table computed by TLC agrees with the rational oracle of the harness (binding of the two)
    for wcase in spec["wrap"]:
        lo, hi, x = rat(wcase["b"][0]), rat(wcase["b"][1]), rat(wcase["x"])
        if lo + ((x - lo) % (hi - lo)) != rat(wcase["y"]):
            raise MachineryError(f"TLC wrap value disagrees with the harness oracle: {wcase}")
    # binding self-test: a wrong closed form must be rejected
    v2 = Verdict(prop)
    bad = json.loads(json.dumps(spec))
    bad["elementary"]["logit"]["jfwd"] = bad["elementary"]["logit"]["fwd"]
    bad["bounds"] = spec["bounds"][:1]
    elementary_checks(v2, bad, ["numpy"], "quick", seed)
    if not any(it["signature"].startswith("ElemJacobian|forward|logit") for it in v2.items):
        raise MachineryError("C04 self-test: wrong closed form accepted")
    rc, n_unlisted, known = verdict.finish()
    cov = {"states": int(max(1, r.distinct)), "transitions": int(max(1, r.generated)), "traces_validated_against_impl": n_el + n_st,
           "samples": [spec["configs"][7], {"bounds": spec["bounds"][1], "fracs": spec["fracs"][:3]}],
           "evaluations": n_el + n_st, "distinct_nontrivial": n_dist + ncfg,
           "rule": "structure: every configuration (<= 3 parameters x kinds x options x composite/flow transform) enumerated by TLC with its stage list, compared with the composition of the public elementary classes; elementary: lattice of bounds x points from the specification, closed-form trees evaluated at 50 digits; distinct = distinct (class, namespace, width, bounds, point) + configurations",
           "exhaustive": tier != "quick", "configurations": ncfg, "elementary_point_evaluations": n_el, "structure_evaluations": n_st,
           "laws_checked_by_tlc": ["RoundTrip", "InvJacNeg", "CompositeOrder", "JacAccumulates", "OnceEach", "WrapRange", "WrapPeriodic"],
           "binding_selftest": "logit log-Jacobian replaced by the value tree was rejected", "known_findings_hit": known}
    write_evidence(prop, tier, seed, time.time() - t0, cov, [STD_ASSUMPTIONS[2],
        "the derivative oracle is the closed form written in Pipeline.tla (calculus done by the specification author), evaluated with mpmath at 50 digits; it is not numerical differentiation",
        "points inside the documented clipping margin (u within 8e-6 of 0 or 1) are checked for finiteness only",
        "the composition oracle uses the library's own public elementary classes: it decides order, column sets and Jacobian accumulation, the elementary classes themselves are decided by the closed forms"], n_unlisted)
    return rc
