"""C05 (spec -> code): every case of Target.tla evaluated through the real samplers' log_prob
(the function the kernels are handed), plus the pre-image clause on real transforms."""
from __future__ import annotations

import json
import math
import random
import time

import numpy as np

import common
import tlacases
from common import MachineryError, Verdict, write_evidence, STD_ASSUMPTIONS

MINF, NAN = 1000, 2000


def val(v):
    return -np.inf if v == MINF else (np.nan if v == NAN else float(v))


class TableFlow:
    """proposal whose log_prob is a table indexed by the first coordinate"""

    def __init__(self, table, xp, dt):
        self.table = np.asarray(table, dtype=np.float64)
        self.xp, self.dt = xp, dt
        self.seen = []

    def log_prob(self, x):
        import smcdrv
        xn = np.asarray(smcdrv.to_np(x), dtype=np.float64)
        self.seen.append(xn.copy())
        idx = np.rint(xn[:, 0]).astype(int)
        return self.xp.asarray(np.asarray(self.table[idx], dtype=self.dt))

    def sample_and_log_prob(self, n):
        raise NotImplementedError


class TableTransform:
    """identity map with a prescribed log-Jacobian per row (stands for the preconditioning transform)"""

    def __init__(self, jac, xp, dt):
        self.jac = np.asarray(jac, dtype=np.float64)
        self.xp, self.dtype = xp, dt

    def inverse(self, z):
        import smcdrv
        zn = np.asarray(smcdrv.to_np(z), dtype=np.float64)
        idx = np.rint(zn[:, 0]).astype(int)
        return self.xp.asarray(np.asarray(zn, dtype=self.dt_name())), self.xp.asarray(np.asarray(self.jac[idx], dtype=self.dt_name()))

    def dt_name(self):
        return self.dtype

    def fit(self, x):
        return x

    def forward(self, x):
        return x, self.xp.zeros(len(x))

    def new_instance(self, xp=None, dtype=None):
        return TableTransform(self.jac, xp or self.xp, self.dtype)


def make_funcs(ltab, ptab, seen):
    def ll(s):
        import smcdrv
        xn = np.asarray(smcdrv.to_np(s.x), dtype=np.float64)
        seen["like"].append(xn.copy())
        idx = np.rint(xn[:, 0]).astype(int)
        return s.xp.asarray(np.asarray(np.asarray(ltab)[idx], dtype=str(np.dtype("float64")) if False else None)) if False else _arr(s, np.asarray(ltab)[idx])

    def lp(s):
        import smcdrv
        xn = np.asarray(smcdrv.to_np(s.x), dtype=np.float64)
        seen["prior"].append(xn.copy())
        idx = np.rint(xn[:, 0]).astype(int)
        return _arr(s, np.asarray(ptab)[idx])
    return ll, lp


def _arr(s, v):
    import smcdrv
    dt = "float32" if smcdrv.width_of(s.x) == 32 else "float64"
    return s.xp.asarray(np.asarray(v, dtype=dt))


SAMPLERS = {
    "MiniPCNSMC": ("aspire.samplers.smc.minipcn", "smc"),
    "EmceeSMC": ("aspire.samplers.smc.emcee", "smc"),
    "BlackJAXSMC": ("aspire.samplers.smc.blackjax", "smc"),
    "MiniPCN": ("aspire.samplers.mcmc", "mcmc"),
    "Emcee": ("aspire.samplers.mcmc", "mcmc"),
}


def eval_cases(verdict, cases, cls, ns, dt):
    import importlib
    import smcdrv
    mod, kind = SAMPLERS[cls]
    C = getattr(importlib.import_module(mod), cls)
    xp = smcdrv.get_xp(ns)
    sub = [c for c in cases if c["kind"] == kind]
    n_eval = 0
    # group by beta (one call per temperature)
    byj = {}
    for c in sub:
        byj.setdefault(c["j"], []).append(c)
    for j, cs in sorted(byj.items()):
        n = len(cs)
        qtab = [val(c["q"]) for c in cs]
        ltab = [val(c["l"]) for c in cs]
        ptab = [val(c["p"]) for c in cs]
        jtab = [float(c["jac"]) for c in cs]
        seen = {"like": [], "prior": []}
        ll, lp = make_funcs(ltab, ptab, seen)
        flow = TableFlow(qtab, xp, dt)
        tr = TableTransform(jtab, xp, dt)
        kw = {}
        smp = C(log_likelihood=ll, log_prior=lp, dims=2, prior_flow=flow, xp=xp, dtype=dt,
                parameters=["a", "b"], preconditioning_transform=tr)
        if cls == "EmceeSMC":
            smp.preconditioning_transform = tr   # NumpySMCSampler re-instantiates real transforms only
        z = np.stack([np.arange(n, dtype=np.float64), np.full(n, 0.5)], axis=1)
        zz = xp.asarray(np.asarray(z, dtype=dt))
        scen = {"builder": "target_cases", "params": {"cls": cls, "ns": ns, "dtype": dt, "j": j}}
        try:
            with np.errstate(invalid="ignore"):
                if kind == "smc":
                    out = smp.log_prob(zz, j / 8.0)
                else:
                    out = smp.log_prob(zz)
        except Exception as ex:
            verdict.violation(f"NeverRaises|log_prob|{cls}|{ns}/{dt}|{type(ex).__name__}", f"{cls}.log_prob raised {type(ex).__name__}: {str(ex)[:150]} (beta={j}/8)", scen)
            continue
        o = np.asarray(smcdrv.to_np(out), dtype=np.float64).reshape(-1)
        n_eval += n
        if o.shape[0] != n:
            verdict.violation(f"TargetDef|shape|{cls}|{ns}/{dt}", f"log_prob returned shape {o.shape} for {n} points", scen)
            continue
        for i, c in enumerate(cs):
            e = c["expect"]
            exp = -np.inf if e == MINF else (np.nan if e == NAN else e / 8.0)
            got = o[i]
            ok = (np.isnan(exp) and np.isnan(got)) or (exp == got)
            if not ok:
                if c["p"] == MINF and not np.isneginf(got):
                    clause = "ZeroPriorMinusInf"
                elif c["raw"] == NAN:
                    clause = "NanToMinusInf"
                else:
                    clause = "TargetDef"
                verdict.violation(f"{clause}|{cls}|{ns}/{dt}",
                                  f"{cls}.log_prob at beta={j}/8, log q={val(c['q'])}, log L={val(c['l'])}, log pi={val(c['p'])}, log|J|={c['jac']}: got {got!r}, specification {exp!r}",
                                  dict(scen, params=dict(scen["params"], case=c)))
        # the points handed to the user functions and to the proposal are the pre-image x (= z here)
        for who, lst in (("likelihood", seen["like"]), ("prior", seen["prior"]), ("proposal", flow.seen if kind == "smc" else [])):
            for xs in lst:
                if xs.shape != z.shape or not np.array_equal(xs, z):
                    verdict.violation(f"PreimageFlow|{who}|{cls}", f"{who} was evaluated at points other than the pre-image of z", scen)
        if kind == "mcmc" and flow.seen:
            verdict.violation(f"TargetDef|mcmc-uses-q|{cls}", "the plain MCMC target evaluated the proposal", scen)
    return n_eval


def preimage_real_transforms(verdict, tier, seed):
    """with the real transforms: log_prob(z) = target(x) + J for (x, J) = transform.inverse(z), and the
    user functions see exactly x"""
    import smcdrv
    from aspire.transforms import CompositeTransform
    from aspire.samplers.smc.minipcn import MiniPCNSMC
    from aspire.samplers.mcmc import MiniPCN
    rng = np.random.default_rng(seed + 9)
    n_eval = 0
    params = ["a", "b"]
    bounds = {"a": [-3.0, 5.0], "b": [0.0, 2.0]}
    cfgs = [dict(affine_transform=False, bounded_to_unbounded=False),
            dict(affine_transform=False, bounded_to_unbounded=False, periodic_parameters=["a"]),
            dict(affine_transform=False, bounded_to_unbounded=True, bounded_transform="logit"),
            dict(affine_transform=False, bounded_to_unbounded=True, bounded_transform="probit"),
            dict(affine_transform=True, bounded_to_unbounded=False),
            dict(affine_transform=True, bounded_to_unbounded=True, bounded_transform="logit"),
            dict(affine_transform=True, bounded_to_unbounded=True, bounded_transform="probit", periodic_parameters=["b"]),
            # preconditioning="flow": a trained flow (VerifFlow through the entry point) as the transform
            dict(flow="verifflow", affine_transform=False, bounded_to_unbounded=True, bounded_transform="logit")]
    # a real (zuko) flow as the preconditioning map, in every sample namespace
    cfgs.append(dict(flow="zuko", affine_transform=True, bounded_to_unbounded=True, bounded_transform="probit",
                     flow_kwargs={"hidden_features": [8]}, fit_kwargs={"n_epochs": 1, "batch_size": 32}))
    nss = ["numpy", "torch", "jax"]
    for ns in nss:
        xp = smcdrv.get_xp(ns)
        for ci, cf in enumerate(cfgs):
            for beta in (0.25, 1.0):
                seen = {"like": [], "prior": [], "q": []}

                def q_np(x):
                    return -0.5 * ((x - 0.3) ** 2).sum(-1) - 1.1

                def l_np(x):
                    return -0.5 * (((x - 0.7) / 0.8) ** 2).sum(-1)

                def p_np(x):
                    return -0.125 * (x ** 2).sum(-1) - 0.2

                class F:
                    def log_prob(self_, x):
                        xn = np.asarray(smcdrv.to_np(x), dtype=np.float64); seen["q"].append(xn.copy())
                        return xp.asarray(q_np(xn))

                def ll(s):
                    xn = np.asarray(smcdrv.to_np(s.x), dtype=np.float64); seen["like"].append(xn.copy())
                    return s.xp.asarray(l_np(xn))

                def lp(s):
                    xn = np.asarray(smcdrv.to_np(s.x), dtype=np.float64); seen["prior"].append(xn.copy())
                    return s.xp.asarray(p_np(xn))
                if cf.get("flow"):
                    from aspire.transforms import FlowPreconditioningTransform
                    kw = {k: v for k, v in cf.items() if k != "flow"}
                    tr = FlowPreconditioningTransform(parameters=params, prior_bounds=bounds, xp=xp, dtype="float64",
                                                      flow_backend=cf["flow"], **kw)
                else:
                    tr = CompositeTransform(parameters=params, prior_bounds=bounds, xp=xp, dtype="float64", **cf)
                xfit = np.stack([rng.uniform(-2.5, 4.5, 64), rng.uniform(0.1, 1.9, 64)], axis=1)
                try:
                    zfit = tr.fit(xp.asarray(xfit))
                    z = np.asarray(smcdrv.to_np(zfit), dtype=np.float64)[:16] + 0.01
                    x_ref, j_ref = tr.inverse(xp.asarray(z))
                except Exception as ex:
                    verdict.violation(f"NeverRaises|preconditioning-map|{'flow:' + cf['flow'] if cf.get('flow') else 'composite'}|{ns}|{type(ex).__name__}",
                                      f"fitting / inverting the preconditioning map {cf} with samples in the {ns} namespace raised {type(ex).__name__}: {str(ex)[:140]}",
                                      {"builder": "preimage", "params": {"ns": ns, "cfg": ci, "beta": beta}})
                    continue
                x_ref = np.asarray(smcdrv.to_np(x_ref), dtype=np.float64)
                j_ref = np.asarray(smcdrv.to_np(j_ref), dtype=np.float64)
                scen = {"builder": "preimage", "params": {"ns": ns, "cfg": ci, "beta": beta}}
                # the Jacobian term the kernels' target contains is log|det dx/dz| of the map actually
                # applied: checked against central finite differences of inverse() itself
                if beta == 1.0:
                    zz = np.asarray(z, dtype=np.float64)
                    cols = []
                    okp = np.ones(len(zz), dtype=bool)
                    for kdim in range(zz.shape[1]):
                        h = 1e-5 * (1.0 + np.abs(zz[:, kdim]))
                        zp, zm = zz.copy(), zz.copy()
                        zp[:, kdim] += h; zm[:, kdim] -= h
                        xpv = np.asarray(smcdrv.to_np(tr.inverse(xp.asarray(zp))[0]), dtype=np.float64)
                        xmv = np.asarray(smcdrv.to_np(tr.inverse(xp.asarray(zm))[0]), dtype=np.float64)
                        okp &= (np.abs(xpv - xmv).max(-1) < 0.5)          # a periodic wrap between the two probes
                        cols.append((xpv - xmv) / (2 * h)[:, None])
                    Jm = np.stack(cols, axis=2)                               # [point, i, k] = dx_i / dz_k
                    sign, logdet = np.linalg.slogdet(Jm)
                    okp &= np.isfinite(logdet) & (sign != 0)
                    if okp.any() and not np.allclose(logdet[okp], j_ref[okp], rtol=0, atol=2e-5 * (1 + np.abs(j_ref[okp]).max())):
                        verdict.violation(f"JacobianIncluded|map|{'flow:' + cf['flow'] if cf.get('flow') else 'composite'}|{ns}",
                                          f"the log-Jacobian reported by the preconditioning map's inverse() is not log|det dx/dz| of that map "
                                          f"(finite differences; max diff {np.max(np.abs(logdet[okp] - j_ref[okp])):.3g}) for transform cfg {cf}", scen)
                    n_eval += int(okp.sum())
                # tails of the latent space (logit map, no whitening): the target keeps its exact Jacobian
                # log|dx/dz| = sum_i log w_i - |z_i| - 2 log(1 + e^-|z_i|) however far out the kernel proposes
                if cf == cfgs[2] and beta == 0.25:
                    zt = np.array([[18.0, -17.0], [-19.0, 16.0], [15.5, 20.0], [-22.0, -14.5]])
                    wv = np.array([bounds["a"][1] - bounds["a"][0], bounds["b"][1] - bounds["b"][0]])
                    lo_v = np.array([bounds["a"][0], bounds["b"][0]])
                    sg = 1.0 / (1.0 + np.exp(-zt))
                    xt = lo_v + wv * sg
                    jt = (np.log(wv) - np.abs(zt) - 2 * np.log1p(np.exp(-np.abs(zt)))).sum(-1)
                    for cls_t, C_t in (("MiniPCNSMC", MiniPCNSMC), ("MiniPCN", MiniPCN)):
                        smp_t = C_t(log_likelihood=ll, log_prior=lp, dims=2, prior_flow=F(), xp=xp, dtype="float64",
                                    parameters=params, preconditioning_transform=tr)
                        try:
                            o_t = smp_t.log_prob(xp.asarray(zt), beta) if cls_t == "MiniPCNSMC" else smp_t.log_prob(xp.asarray(zt))
                        except Exception as ex:
                            verdict.violation(f"NeverRaises|log_prob-tails|{cls_t}|{ns}|{type(ex).__name__}", f"{cls_t}.log_prob in the tails raised {type(ex).__name__}: {str(ex)[:120]}", scen)
                            continue
                        bt_ = beta if cls_t == "MiniPCNSMC" else 1.0
                        e_t = ((1 - bt_) * q_np(xt) if cls_t == "MiniPCNSMC" else 0.0) + bt_ * (l_np(xt) + p_np(xt)) + jt
                        o_tn = np.asarray(smcdrv.to_np(o_t), dtype=np.float64).reshape(-1)
                        n_eval += len(zt)
                        if not np.allclose(o_tn, e_t, rtol=0, atol=1e-5):
                            verdict.violation(f"JacobianIncluded|tails|{cls_t}|{ns}", f"{cls_t}.log_prob at latent points {zt.tolist()} (logit map) is {o_tn.tolist()}, tempered target + exact log-Jacobian = {e_t.tolist()}", scen)
                classes = [("MiniPCNSMC", MiniPCNSMC), ("MiniPCN", MiniPCN)]
                if ns == "jax" and not cf.get("flow"):
                    from aspire.samplers.smc.blackjax import BlackJAXSMC      # its own re-implementation of log_prob
                    classes.append(("BlackJAXSMC", BlackJAXSMC))
                for cls, C in classes:
                    for k in seen:
                        seen[k].clear()
                    smp = C(log_likelihood=ll, log_prior=lp, dims=2, prior_flow=F(), xp=xp, dtype="float64",
                            parameters=params, preconditioning_transform=tr)
                    try:
                        out = smp.log_prob(xp.asarray(z), beta) if cls != "MiniPCN" else smp.log_prob(xp.asarray(z))
                    except Exception as ex:
                        verdict.violation(f"NeverRaises|log_prob|{cls}|{ns}|{type(ex).__name__}", f"{cls}.log_prob with transform cfg {cf} raised {type(ex).__name__}: {str(ex)[:120]}", scen)
                        continue
                    n_eval += len(z)
                    o = np.asarray(smcdrv.to_np(out), dtype=np.float64).reshape(-1)
                    b = beta if cls != "MiniPCN" else 1.0
                    exp = ((1 - b) * q_np(x_ref) if cls != "MiniPCN" else 0.0) + b * (l_np(x_ref) + p_np(x_ref)) + j_ref
                    if not np.allclose(o, exp, rtol=1e-10, atol=1e-10):
                        verdict.violation(f"JacobianIncluded|{cls}|{ns}", f"{cls}.log_prob(z) != tempered target at x=inverse(z) + log|det dx/dz| for transform cfg {cf} (max diff {np.max(np.abs(o-exp)):.3g})", scen)
                    for who in ("like", "prior") + (("q",) if cls != "MiniPCN" else ()):
                        for xs in seen[who]:
                            if xs.shape != x_ref.shape or not np.allclose(xs, x_ref, rtol=0, atol=1e-12):
                                verdict.violation(f"PreimageFlow|{who}|{cls}|{ns}", f"{who} evaluated at points that are not inverse(z) for transform cfg {cf}", scen)
    return n_eval


def pool_context_target(verdict, tier, seed):
    """samplers created inside Aspire.enable_pool (with and without parallelize_prior) are handed the
    same tempered target as outside: the kernel's log_prob is compared with the reference"""
    import smcdrv
    from aspire import Aspire

    class FakePool:
        def map(self, fn, it):
            return list(map(fn, it))

        def close(self):
            pass

        def join(self):
            pass
    n_eval = 0
    xp = smcdrv.get_xp("numpy")

    def q_np(x):
        return -0.5 * ((x - 0.3) ** 2).sum(-1) - 1.1

    def l_np(x):
        return -0.5 * (((x - 0.7) / 0.8) ** 2).sum(-1)

    def p_np(x):
        return np.where((np.abs(x) < 3).all(-1), -0.125 * (x ** 2).sum(-1) - 0.2, -np.inf)

    class F:
        def log_prob(self, x):
            return xp.asarray(q_np(np.asarray(smcdrv.to_np(x), dtype=np.float64)))

        def sample_and_log_prob(self, n):
            raise NotImplementedError

    def ll(s, map_fn=map):
        return s.xp.asarray(l_np(np.asarray(smcdrv.to_np(s.x), dtype=np.float64)))

    def lp(s, map_fn=map):
        return s.xp.asarray(p_np(np.asarray(smcdrv.to_np(s.x), dtype=np.float64)))
    rng = np.random.default_rng(seed + 2)
    z = np.concatenate([rng.normal(0.5, 1.0, size=(12, 2)), np.array([[4.0, 0.0], [0.0, -5.0]])])   # two zero-prior points
    for stype, beta in (("smc", 0.25), ("smc", 1.0), ("emcee_smc", 0.5), ("minipcn", None), ("emcee", None)):
        for pp in (False, True):
            for where in ("inside", "after"):
                a = Aspire(log_likelihood=ll, log_prior=lp, dims=2, parameters=["a", "b"], flow=F(), xp=xp, dtype="float64")
                scen = {"builder": "pool_target", "params": {"sampler": stype, "parallelize_prior": pp, "where": where}}
                try:
                    with a.enable_pool(FakePool(), close_pool=False, parallelize_prior=pp):
                        if where == "inside":
                            smp = a.init_sampler(stype, preconditioning="none")
                    if where == "after":
                        smp = a.init_sampler(stype, preconditioning="none")
                    out = smp.log_prob(xp.asarray(z), beta) if beta is not None else smp.log_prob(xp.asarray(z))
                except Exception as ex:
                    verdict.violation(f"NeverRaises|pool-target|{stype}|{type(ex).__name__}", f"{stype} created {where} enable_pool(parallelize_prior={pp}): {type(ex).__name__}: {str(ex)[:120]}", scen)
                    continue
                n_eval += len(z)
                o = np.asarray(smcdrv.to_np(out), dtype=np.float64).reshape(-1)
                b = 1.0 if beta is None else beta
                with np.errstate(invalid="ignore"):
                    exp = ((1 - b) * q_np(z) if beta is not None else 0.0) + b * (l_np(z) + p_np(z))
                ok = np.where(np.isneginf(exp), np.isneginf(o), np.abs(o - exp) <= 1e-10 * (1 + np.abs(exp)))
                if o.shape != exp.shape or not np.all(ok):
                    k = int(np.argmin(ok))
                    clause = "ZeroPriorMinusInf" if np.isneginf(exp[k]) else "TargetDef"
                    verdict.violation(f"{clause}|pool|{stype}|parallelize_prior={pp}|{where}",
                                      f"{stype} sampler created {where} enable_pool(parallelize_prior={pp}): kernel target {o[k]!r}, specification {exp[k]!r}", scen)
    return n_eval


def kernel_temperature(verdict, tier, seed):
    """trace validation (SMCTrace.tla, clause KernelTemperature) of real runs: the temperature of the
    target each kernel call is handed is the temperature of the stage (forks: runs before torch / jax are
    initialised in this process)"""
    import random
    import smc_checks
    specs = smc_checks.corpus_kernel_temperature(tier, seed, random.Random(seed + 41))
    groups = smc_checks.build_groups(specs)
    errs = [g for g in groups if "error" in g]
    if errs:
        raise MachineryError("corpus build failed:\n" + errs[0]["error"])
    verdicts, s_, t_ = smc_checks.validate(groups, "C05runs")
    n = 0
    for g in groups:
        n += len(g["runs"])
        for (ri, clause) in verdicts[g["id"]]:
            if clause == "KernelTemperature":
                verdict.violation(smc_checks.signature(clause, g, ri),
                                  f"KernelTemperature failed on a real {g['cfg']['sampler']} run (group {g['id']}): a kernel was handed the target at another temperature than the stage it mutates",
                                  g.get("spec"))
    return {"kernel_temperature_runs": n, "tlc_states": s_, "tlc_transitions": t_}


def main(prop, tier, seed, replay_path=None):
    t0 = time.time()
    verdict = Verdict(prop)
    kt = kernel_temperature(verdict, tier, seed) if not replay_path else {}
    consts = {"Vals": "<- MCVals", "Js": "= {1, 4, 8}" if tier == "quick" else "= {1, 2, 3, 4, 5, 6, 7, 8}",
              "Jacs": "<- MCJacs", "Kinds": '= {"smc", "mcmc"}', "MaxCases": "= 100000"}
    cases, r, ncases = tlacases.export_cases("MC_Target", consts, name="target", timeout=3000)
    combos = [("MiniPCNSMC", "numpy", "float64"), ("MiniPCNSMC", "torch", "float64"), ("MiniPCNSMC", "jax", "float64"),
              ("MiniPCNSMC", "numpy", "float32"), ("EmceeSMC", "numpy", "float64"), ("BlackJAXSMC", "jax", "float64"),
              ("MiniPCN", "numpy", "float64"), ("Emcee", "numpy", "float64")]
    if tier != "quick":
        combos += [("MiniPCNSMC", "torch", "float32"), ("MiniPCNSMC", "jax", "float32"), ("BlackJAXSMC", "jax", "float32"),
                   ("MiniPCN", "numpy", "float32"), ("Emcee", "numpy", "float32"), ("EmceeSMC", "numpy", "float32")]
    n_eval = 0
    for (cls, ns, dt) in combos:
        n_eval += eval_cases(verdict, cases, cls, ns, dt)
    n_pre = preimage_real_transforms(verdict, tier, seed)
    n_pre += pool_context_target(verdict, tier, seed)
    import e3_dispatch
    disp = e3_dispatch.replay(verdict, tier, seed) if not replay_path else {}
    # binding self-test: a wrong expectation must be noticed
    v2 = Verdict(prop)
    bad = [dict(c, expect=(c["expect"] + 8 if c["expect"] not in (MINF, NAN) else c["expect"])) for c in cases[:200]]
    eval_cases(v2, bad, "MiniPCNSMC", "numpy", "float64")
    if not any(it["signature"].startswith("TargetDef") for it in v2.items) and any(c["expect"] not in (MINF, NAN) for c in cases[:200]):
        raise MachineryError("C05 self-test: shifted reference accepted")
    rc, n_unlisted, known = verdict.finish()
    distinct = {(c["kind"], c["j"], c["q"], c["l"], c["p"]) for c in cases}
    cov = {"states": int(max(1, r.distinct)), "transitions": int(max(1, r.generated)), "traces_validated_against_impl": n_eval + n_pre,
           "samples": [cases[0], cases[len(cases) // 2]],
           "evaluations": n_eval + n_pre, "distinct_nontrivial": len(distinct),
           "rule": "cases = (beta in eighths, log q, log L, log pi, log-Jacobian incl. -inf / NaN) enumerated by TLC from Target.tla with the exact expected value, evaluated through each sampler class's log_prob in the listed namespaces/widths; distinct = distinct (kind, beta, q, L, pi) tuples; plus the pre-image clause on 7 real transform configurations",
           "exhaustive": tier != "quick", "tlc_cases": ncases, "sampler_namespace_combinations": [list(c) for c in combos],
           "preimage_points": n_pre, "kernel_temperature_runs": kt.get("kernel_temperature_runs", 0), "laws_checked_by_tlc": ["ZeroPriorMinusInf", "NanToMinusInf", "FiniteIffAllFinite", "TargetDef"],
           "binding_selftest": "reference shifted by 1 rejected", "known_findings_hit": known}
    cov.update(disp)
    write_evidence(prop, tier, seed, time.time() - t0, cov, [STD_ASSUMPTIONS[2],
        "table-valued proposal / likelihood / prior and a table-valued identity transform stand for the user's functions: all finite values are small dyadic rationals so the expected result is exact in binary floating point",
        "BlackJAXSMC is exercised through its log_prob only (the blackjax package cannot be installed)",
        "+inf log-densities are outside the domain (the property speaks of densities)"], n_unlisted)
    return rc
