"""Driver + tracer for real SMC / MCMC / importance runs of aspire.

Observes the run only at public seams (user likelihood / prior, proposal
object, random generator, kernel package, checkpoint callback, HDF5 file,
returned objects), and projects what it saw to a finite abstract trace
(small integers, order ranks, content ids, three-valued flags) for TLC.
"""
from __future__ import annotations

import hashlib
import math
import os
import pickle
import sys
from functools import partial

import numpy as np

import emcee as emcee_stub
import minipcn as minipcn_stub
import orng as orng_stub
import verifflow_mod

_JAX_READY = False


def get_xp(ns: str):
    global _JAX_READY
    if ns == "numpy":
        import array_api_compat.numpy as xp
        return xp
    if ns == "torch":
        import array_api_compat.torch as xp
        import torch
        torch.set_num_threads(1)
        return xp
    if ns == "jax":
        import jax
        if not _JAX_READY:
            jax.config.update("jax_enable_x64", True)
            _JAX_READY = True
        import jax.numpy as xp
        return xp
    raise ValueError(ns)


def to_np(a):
    if a is None:
        return None
    try:
        import torch
        if isinstance(a, torch.Tensor):
            return a.detach().cpu().numpy()
    except Exception:
        pass
    return np.asarray(a)


def sel_to_ns(sel, ns):
    """A selector (slice / boolean mask / index array) in the array namespace `ns`."""
    if isinstance(sel, slice):
        return sel
    return get_xp(ns).asarray(np.asarray(sel))


def width_of(a) -> int:
    if a is None:
        return 0
    s = str(getattr(a, "dtype", ""))
    if "64" in s:
        return 64
    if "32" in s:
        return 32
    if "16" in s:
        return 16
    return 0


def effective_width(a) -> int:
    """Width of the *values*: a float64 array whose every entry is exactly a float32 number has been
    squeezed through single precision somewhere (chance for genuine float64 data: 2^-29 per entry).
    Arrays of fewer than 4 entries, or of integers / small dyadic rationals only, keep their nominal width."""
    w = width_of(a)
    if w != 64:
        return w
    v = np.asarray(to_np(a), dtype=np.float64).ravel()
    v = v[np.isfinite(v)]
    if v.size < 4 or np.all(v * 1024 == np.round(v * 1024)):
        return w
    return 32 if np.all(v.astype(np.float32).astype(np.float64) == v) else 64


def ns_of(a) -> str:
    m = type(a).__module__
    if m.startswith("torch"):
        return "torch"
    if m.startswith("jax"):
        return "jax"
    if m.startswith("numpy"):
        return "numpy"
    return m.split(".")[0]


class InjectedFault(Exception):
    pass


class IdTable:
    """bit-exact content hash -> first-occurrence index (shared by a group)."""

    def __init__(self):
        self.ids = {}

    def of(self, arr) -> int:
        a = to_np(arr)
        if a is None:
            return 0
        a = np.ascontiguousarray(np.asarray(a, dtype=np.float64))
        h = hashlib.sha1(str(a.shape).encode() + a.tobytes()).digest()
        if h not in self.ids:
            self.ids[h] = len(self.ids) + 1
        return self.ids[h]

    def of_bytes(self, b: bytes) -> int:
        h = hashlib.sha1(b"B" + b).digest()
        if h not in self.ids:
            self.ids[h] = len(self.ids) + 1
        return self.ids[h]


# --------------------------------------------------------------------------
# Harness-owned pure functions (the provenance oracle)
# --------------------------------------------------------------------------

class Problem:
    """log L: axis-aligned Gaussian, column i has centre `center` + 0.25 i and width `width` (1 + 0.5 i);
    log pi: non-constant (Gaussian, sd 3 + 0.75 i) inside the box [-lim, lim]^d, -inf outside.
    Neither is symmetric under a permutation of the coordinates (a column mix-up must show)."""

    def __init__(self, dims=2, width=0.5, center=1.0, lim=5.0, cut=None):
        self.dims = dims
        self.width = float(width)
        self.center = float(center)
        self.lim = float(lim)
        self.cut = cut        # the likelihood is zero for x_0 < cut (inside the prior support)

    def ll_np(self, x):
        x = np.asarray(x, dtype=np.float64)
        if x.ndim == 1:
            x = x[:, None] if self.dims == 1 else x[None, :]
        # not symmetric under a permutation of the coordinates: column i has its own centre and width
        k = np.arange(x.shape[-1], dtype=np.float64)
        v = -0.5 * (((x - (self.center + 0.25 * k)) / (self.width * (1.0 + 0.5 * k))) ** 2).sum(-1)
        if self.cut is not None:
            v = np.where(x[:, 0] < self.cut, -np.inf, v)
        return v

    def lp_np(self, x):
        x = np.asarray(x, dtype=np.float64)
        if x.ndim == 1:
            x = x[:, None] if self.dims == 1 else x[None, :]
        inside = (np.abs(x) < self.lim).all(-1)
        val = -0.5 * ((x / (3.0 + 0.75 * np.arange(x.shape[-1], dtype=np.float64))) ** 2).sum(-1) - 1.0
        return np.where(inside, val, -np.inf)


def close(a, b, width=64):
    a = np.asarray(a, dtype=np.float64)
    b = np.asarray(b, dtype=np.float64)
    tol = 1e-9 if width >= 64 else 2e-4
    with np.errstate(invalid="ignore"):
        same_inf = np.isinf(a) & np.isinf(b) & (np.sign(a) == np.sign(b))
        ok = np.abs(a - b) <= tol * (1.0 + np.abs(b))
    return bool(np.all(ok | same_inf))


class Tracer:
    def __init__(self, prob: Problem, ids: IdTable, fault_k=None, recipe=False,
                 file_path=None):
        self.prob = prob
        self.ids = ids
        self.ev = []
        self.k = 0            # likelihood call index
        self.kp = 0           # prior call index
        self.fault_k = fault_k
        self.fault_on = "like"
        self.recipe = recipe
        self.file_path = file_path
        self.in_kernel = False
        self.payloads = []    # raw payload dicts (for resume)
        self.flow = None

    # ---- user functions -------------------------------------------------
    def _wallclock_guard(self):
        # no single run may keep a check busy for ever (a tree under test may make a schedule crawl):
        # after two minutes the run is cut like a run that exhausted its kernel budget ("truncated", no verdict)
        import time as _t
        t0 = getattr(self, "_t0", None)
        if t0 is None:
            self._t0 = _t.time()
        elif _t.time() - t0 > 120.0:
            raise minipcn_stub.KernelBudgetExceeded("wall clock")

    def log_prior(self, samples):
        self._wallclock_guard()
        x = to_np(samples.x)
        self.kp += 1
        self.ev.append({"t": "prior", "batch": self.ids.of(x), "n": int(len(x)), "k": self.kp,
                        "inker": self.in_kernel})
        if self.fault_k is not None and self.fault_on == "prior" and self.kp == self.fault_k:
            raise InjectedFault(f"prior call {self.kp}")
        val = self.prob.lp_np(x)
        if getattr(self, "ret64", False):
            return samples.xp.asarray(np.asarray(val, dtype=np.float64))
        return samples.xp.asarray(val, dtype=samples.dtype)

    def log_likelihood(self, samples):
        self._wallclock_guard()
        x = to_np(samples.x)
        self.k += 1
        lp = getattr(samples, "log_prior", None)
        has_prior = lp is not None
        prior_ok = False
        if has_prior:
            lpn = to_np(lp)
            prior_ok = (lpn.shape[0] == x.shape[0]) and close(lpn, self.prob.lp_np(x), width_of(samples.x))
        e = {"t": "like", "batch": self.ids.of(x), "n": int(len(x)), "k": self.k,
             "has_prior": bool(has_prior), "prior_ok": bool(prior_ok),
             "width": (width_of(samples.x) if effective_width(samples.x) == width_of(samples.x) else 0),   # 0: values narrower than their container
             "ns": ns_of(samples.x), "inker": self.in_kernel}
        if self.file_path is not None:
            e["file"] = read_file_state(self.file_path, self.ids)
            e["file"]["flow_cur"] = flow_currency(e["file"], getattr(getattr(self, "aspire", None), "flow", None))
            smp = getattr(getattr(self, "aspire", None), "_sampler", None)
            lb = getattr(smp, "_last_checkpoint_bytes", None)
            e["file"]["last_bytes"] = self.ids.of_bytes(lb) if lb else 0
        self.ev.append(e)
        e["faulted"] = False
        if self.fault_k is not None and self.fault_on == "like" and self.k == self.fault_k:
            e["faulted"] = True
            raise InjectedFault(f"likelihood call {self.k}")
        val = self.prob.ll_np(x)
        if self.recipe:
            if not has_prior:
                raise AttributeError("recipe likelihood needs samples.log_prior")
            val = np.where(np.isfinite(to_np(lp)), val, -np.inf)
        if getattr(self, "ret64", False):
            # a user function that works in double precision whatever the precision of the samples
            return samples.xp.asarray(np.asarray(val, dtype=np.float64))
        return samples.xp.asarray(val, dtype=samples.dtype)

    # ---- kernel / flow / rng observers ---------------------------------
    def kernel_event(self, e):
        if e["t"] == "kernel_init":
            self.ev.append({"t": "kinit", "rng_obj": id(e["rng"]) if e["rng"] is not None else 0,
                            "_rng": e["rng"]})
            return
        if e.get("phase") == "begin":
            self.in_kernel = True
            b = e.get("beta")
            self.ev.append({"t": "kbegin", "z": self.ids.of(e["z"]), "n": int(len(e["z"])),
                            "n_steps": int(e["n_steps"]), "_rng": e["rng"],
                            "_beta": float(b) if b is not None else float("nan")})
        else:
            self.in_kernel = False
            self.ev.append({"t": "kend", "out": self.ids.of(e["out"])})

    def flow_event(self, e):
        if e["t"] == "draw":
            self.ev.append({"t": "draw", "n": int(e["n"]), "out": self.ids.of(e["x"])})
        else:
            self.ev.append({"t": "logq", "batch": self.ids.of(e["x"]), "n": int(len(e["x"]))})


class LoggingRNG:
    """Proxy around a numpy Generator: records every draw; `choice` with its p."""

    def __init__(self, gen, tracer: Tracer, script=None):
        self._g = gen
        self._t = tracer
        self.script = script  # optional dict call_index -> index vector
        self.ncalls = 0
        self.nchoice = 0

    @property
    def bit_generator(self):
        return self._g.bit_generator

    def choice(self, a, size=None, replace=True, p=None):
        self.ncalls += 1
        self.nchoice += 1
        idx = self._g.choice(a, size=size, replace=replace, p=p)
        if self.script and self.nchoice in self.script:
            idx = np.asarray(self.script[self.nchoice](idx, p))
        self._t.ev.append({"t": "choice", "n_src": int(a), "size": int(size) if size is not None else -1,
                           "_p": None if p is None else np.array(p, dtype=np.float64),
                           "_idx": np.array(idx), "rng_user": True})
        return idx

    def normal(self, *a, **k):
        self.ncalls += 1
        return self._g.normal(*a, **k)

    def uniform(self, *a, **k):
        self.ncalls += 1
        return self._g.uniform(*a, **k)

    def random(self, *a, **k):
        self.ncalls += 1
        return self._g.random(*a, **k)

    def __deepcopy__(self, memo):
        # a deep copy is another generator object (the library deep-copies the keyword arguments of a
        # finished call for its records): it shares the tracer, so a copy that ends up *driving* a kernel is
        # seen as "not the generator the user supplied"
        import copy as _copy
        new = LoggingRNG(_copy.deepcopy(self._g, memo), self._t, script=self.script)
        new.is_copy = True
        return new

    def __getattr__(self, name):
        if name.startswith("__") or name == "_g":
            raise AttributeError(name)
        return getattr(self._g, name)


def flow_currency(fs: dict, flow) -> str:
    """Is the proposal stored in the file the one the instance is sampling with?  yes / stale / none
    (decidable for the VerifFlow stand-in, whose parameters are stored verbatim)."""
    fp = fs.pop("_flow_params", None)
    if fp is None or flow is None or not hasattr(flow, "loc"):
        return "none"
    cur = np.concatenate([np.ravel(flow.loc), np.ravel(flow.scale)])
    return "yes" if (fp.shape == cur.shape and np.array_equal(fp, cur)) else "stale"


def read_file_state(path, ids: IdTable):
    import h5py
    out = {"exists": False, "has_cfg": False, "has_flow": False, "blob": 0, "blob_iter": -1,
           "cfg_sampler": "", "loadable": False}
    if not os.path.exists(path):
        return out
    out["exists"] = True
    try:
        with h5py.File(path, "r") as f:
            out["has_cfg"] = "aspire_config" in f
            out["has_flow"] = "flow" in f
            if out["has_flow"] and "loc" in f["flow"] and "scale" in f["flow"]:
                out["_flow_params"] = np.concatenate([np.ravel(f["flow"]["loc"][()]), np.ravel(f["flow"]["scale"][()])])
            if out["has_cfg"] and "sampler_type" in f["aspire_config"]:
                v = f["aspire_config"]["sampler_type"][()]
                out["cfg_sampler"] = v.decode() if isinstance(v, bytes) else str(v)
            if "checkpoint" in f and "state" in f["checkpoint"]:
                b = f["checkpoint"]["state"][...].tobytes()
                out["blob"] = ids.of_bytes(b)
                try:
                    st = pickle.loads(b)
                    out["blob_iter"] = int(st.get("iteration") or 0)
                    out["loadable"] = True
                except Exception:
                    out["loadable"] = False
    except Exception as ex:  # file unreadable
        out["error"] = repr(ex)
    return out


# --------------------------------------------------------------------------
# High-precision reference functionals
# --------------------------------------------------------------------------

LD = np.longdouble


def _lse(v):
    v = np.asarray(v, dtype=LD)
    m = np.max(v)
    if not np.isfinite(m):
        return m
    return m + np.log(np.sum(np.exp(v - m)))


def inc_logw(pop, b_from, b_to):
    ll = np.asarray(pop["ll"], dtype=LD)
    lp = np.asarray(pop["lp"], dtype=LD)
    lq = np.asarray(pop["lq"], dtype=LD)
    d = LD(b_to) - LD(b_from)
    return d * (ll + lp) - d * lq


def ref_ess(pop, b_from, b_to):
    lw = inc_logw(pop, b_from, b_to)
    return float(np.exp(2 * _lse(lw) - _lse(2 * lw)))


def ref_ratio(pop, b_from, b_to):
    lw = inc_logw(pop, b_from, b_to)
    return float(_lse(lw) - np.log(LD(len(lw))))


def ref_ratio_var(pop, b_from, b_to):
    lw = inc_logw(pop, b_from, b_to)
    u = np.exp(lw - np.max(lw))
    m = np.mean(u)
    return float(np.var(u) / (len(u) * m * m))


def ref_probs(pop, b_from, b_to):
    lw = inc_logw(pop, b_from, b_to)
    return np.asarray(np.exp(lw - _lse(lw)), dtype=np.float64)


def flag(cond_value, threshold, rel):
    """three-valued  value >= threshold."""
    if not (math.isfinite(cond_value) and math.isfinite(threshold)):
        return "near"
    if cond_value >= threshold * (1 + rel) + 1e-300:
        return "yes"
    if cond_value <= threshold * (1 - rel):
        return "no"
    return "near"


def popdict(s):
    return {"x": to_np(s.x), "ll": to_np(s.log_likelihood), "lp": to_np(s.log_prior),
            "lq": to_np(s.log_q), "beta": getattr(s, "beta", None), "width": width_of(s.x),
            # widths of every per-sample field that is present (a population has one precision)
            "fwidths": sorted({width_of(v) for v in (s.x, s.log_likelihood, s.log_prior, s.log_q) if v is not None}),
            "ns": ns_of(s.x)}


def coherent(pop, prob: Problem, flow, req_width=64):
    """[l, p, q] : does each cached value belong to the row's own coordinates?
    (tolerance from the *requested* precision: width defects belong to C15)"""
    x = pop["x"]
    w = min(pop["width"] or 64, req_width)
    out = []
    exp_ll = prob.ll_np(x)
    if getattr(prob, "recipe", False):      # the documented recipe: out-of-prior points are skipped
        exp_ll = np.where(np.isfinite(prob.lp_np(x)), exp_ll, -np.inf)
    out.append(pop["ll"] is not None and len(pop["ll"]) == len(x) and close(pop["ll"], exp_ll, w))
    out.append(pop["lp"] is not None and len(pop["lp"]) == len(x) and close(pop["lp"], prob.lp_np(x), w))
    if pop["lq"] is None:
        out.append(None)
    else:
        obs = verifflow_mod.OBSERVER
        verifflow_mod.OBSERVER = None
        try:
            q = to_np(flow.log_prob(np.asarray(x, dtype=np.float64)))
        finally:
            verifflow_mod.OBSERVER = obs
        out.append(len(pop["lq"]) == len(x) and close(pop["lq"], q, min(w, width_of(q) or 64)))
    return out


# --------------------------------------------------------------------------
# One run
# --------------------------------------------------------------------------

DEFAULT = dict(
    sampler="minipcn_smc", ns="numpy", dtype=None, N=8, dims=2, adaptive=True, n_steps=None,
    min_step=None, max_n_steps=None, target=0.5, rate=1.0, tol=None, n_final=None,
    n_final_steps=None, every=None, width=0.5, center=1.0, seed=1, kseed=None, precond="none",
    fault_k=None, fault_on="like", recipe=False, split=1, via="sampler", path=None,
    mcmc_steps=2, budget=400, bad_frac=0.0, rng_route="sample", store_history=True,
    flow_seed=11, scale=0.3, cut=None,
)


def make_flow(cfg, prob, xp):
    from aspire.transforms import IdentityTransform
    loc = 0.3 + 0.2 * np.arange(cfg["dims"], dtype=np.float64)        # per-coordinate location and scale
    sc = (1.5 + 3.5 * float(cfg.get("bad_frac", 0.0)) * 2) * (1.0 + 0.1 * np.arange(cfg["dims"], dtype=np.float64))
    fl = verifflow_mod.VerifFlow(cfg["dims"], seed=cfg["flow_seed"], loc=loc, scale=sc,
                                 dtype=cfg["dtype"] or "float64")
    return fl


def make_precond(cfg, xp):
    from aspire.transforms import CompositeTransform
    p = cfg["precond"]
    if p == "none":
        return None
    params = list(cfg.get("pnames") or [f"x_{i}" for i in range(cfg["dims"])])
    bounds = {q: [-5.0, 5.0] for q in params}
    kw = dict(parameters=params, prior_bounds=bounds, xp=xp, dtype=cfg["dtype"])
    if p == "default":
        return CompositeTransform(affine_transform=False, bounded_to_unbounded=False, **kw)
    if p == "affine":
        return CompositeTransform(affine_transform=True, bounded_to_unbounded=False, **kw)
    if p == "logit":
        return CompositeTransform(affine_transform=False, bounded_to_unbounded=True,
                                  bounded_transform="logit", **kw)
    if p == "full":
        return CompositeTransform(affine_transform=True, bounded_to_unbounded=True,
                                  bounded_transform="probit", **kw)
    if p == "periodic":
        return CompositeTransform(affine_transform=False, bounded_to_unbounded=False,
                                  periodic_parameters=[params[0]], **kw)
    raise ValueError(p)


def sampler_class(name):
    if name == "minipcn_smc":
        from aspire.samplers.smc.minipcn import MiniPCNSMC as C
    elif name == "emcee_smc":
        from aspire.samplers.smc.emcee import EmceeSMC as C
    else:
        raise ValueError(name)
    return C


def run_smc(cfg: dict, ids: IdTable | None = None, resume_from=None, role="single",
            choice_script=None, reuse=None) -> dict:
    """Execute one real SMC run and return the raw run record.
    reuse: the record of an earlier run - the *same sampler object* is used for another sample() call
    (its user functions keep pointing at the earlier tracer, whose event log is restarted)."""
    c = dict(DEFAULT)
    c.update(cfg)
    ids = ids or IdTable()
    xp = get_xp(c["ns"])
    if reuse is not None:
        return _rerun(c, reuse, role)
    prob = Problem(c["dims"], c["width"], c["center"], cut=c.get("cut"))
    prob.recipe = bool(c["recipe"])
    tr = Tracer(prob, ids, fault_k=c["fault_k"], recipe=c["recipe"], file_path=c["path"])
    tr.ret64 = bool(c.get("ret64"))
    tr.fault_on = c["fault_on"]
    flow = make_flow(c, prob, xp)
    tr.flow = flow
    minipcn_stub.reset()
    emcee_stub.reset()
    minipcn_stub.OBSERVER = tr.kernel_event
    emcee_stub.OBSERVER = tr.kernel_event
    minipcn_stub.SPLIT = c["split"]
    minipcn_stub.SCALE = emcee_stub.SCALE = c["scale"]
    minipcn_stub.MAX_SAMPLE_CALLS = emcee_stub.MAX_SAMPLE_CALLS = c["budget"]
    verifflow_mod.OBSERVER = tr.flow_event
    orng_stub.CREATED.clear()
    np.random.seed((c["kseed"] if c["kseed"] is not None else c["seed"]) % (2**31))

    gen = np.random.default_rng(c["seed"])
    urng = LoggingRNG(gen, tr, script=choice_script)
    Cls = sampler_class(c["sampler"])
    init_kw = {}
    sample_kw = {}
    import inspect
    init_params = inspect.signature(Cls.__init__).parameters
    if c["rng_route"] == "init" and "rng" in init_params:
        init_kw["rng"] = urng
    sampler = Cls(log_likelihood=tr.log_likelihood, log_prior=tr.log_prior, dims=c["dims"],
                  prior_flow=flow, xp=xp, dtype=c["dtype"],
                  parameters=list(c.get("pnames") or [f"x_{i}" for i in range(c["dims"])]),
                  preconditioning_transform=make_precond(c, xp), **init_kw)
    if "rng" not in init_params and hasattr(sampler, "rng"):
        sampler.rng = urng      # no constructor / call parameter: the attribute is the only way in
    sample_kw = _sample_kwargs(c, sampler, urng)

    def cb(state):
        # the payload as the library produced it
        blob = sampler.serialize_checkpoint(state)
        tr.payloads.append(blob)
        e = {"t": "ckpt", "iter": int(state.get("iteration") or 0),
             "_beta": float(state.get("meta", {}).get("beta", float("nan"))),
             "pop": ids.of(state["samples"].x), "size": int(len(state["samples"])),
             "bytes": ids.of_bytes(blob), "_state": state}
        # snapshot of what the payload holds *now*: the dictionary may legitimately be handed to a
        # later resume (route "live_dict"), whose sampler then continues to append to its history
        Hs = state.get("history")
        pop = popdict(state["samples"])
        e["_snap"] = {
            "coh": coherent(pop, prob, flow, 32 if c["dtype"] == "float32" else 64),
            "width": pop["width"], "has_rng": state.get("rng_state") is not None,
            "keys": sorted(state.keys()),
            "lens": _series_len(Hs) if Hs is not None else {},
            "hbetas": [float(x) for x in Hs.beta] if Hs is not None else [],
            "hpops": [ids.of(q.x) for q in Hs.sample_history] if Hs is not None else [],
        }
        tr.ev.append(e)
        if c["path"] is not None:
            # emulate default file callback through the library's own routine
            from aspire.utils import AspireFile
            with AspireFile(c["path"], "a") as h5:
                sampler.save_checkpoint_to_hdf(state, h5, path="checkpoint", dsetname="state")
            sampler.default_checkpoint_callback(state)
            e["file"] = read_file_state(c["path"], ids)

    if c["every"] is not None:
        if c.get("own_callback", True):
            sample_kw["checkpoint_callback"] = cb
        sample_kw["checkpoint_every"] = c["every"]
        if not c.get("own_callback", True) and c["path"] is not None:
            sample_kw["checkpoint_file_path"] = c["path"]
    if resume_from is not None:
        sample_kw["resume_from"] = resume_from

    status, exc = "ok", ""
    result = None
    try:
        result = sampler.sample(c["N"], **sample_kw)
    except InjectedFault as ex:
        status, exc = "fault", str(ex)
    except (minipcn_stub.KernelBudgetExceeded, emcee_stub.KernelBudgetExceeded):
        status = "truncated"
    except Exception as ex:  # the library raised by itself
        status, exc = "raised", f"{type(ex).__name__}: {ex}"
    finally:
        minipcn_stub.OBSERVER = None
        emcee_stub.OBSERVER = None
        verifflow_mod.OBSERVER = None
    if c["path"] is not None and status != "ok":
        tr.ev.append({"t": "filecheck", "file": read_file_state(c["path"], ids)})
    import copy as _copy
    return {"cfg": c, "role": role, "status": status, "exc": exc, "tracer": _freeze_tracer(tr), "sampler": sampler,
            "result": result, "urng": urng, "flow": flow, "prob": prob, "ids": ids,
            "orng_created": len(orng_stub.CREATED), "resumed": resume_from is not None,
            "hist": _copy.deepcopy(getattr(sampler, "history", None)),
            "nlike_total": int(sampler.n_likelihood_evaluations)}


class _FrozenTracer:
    """the observations of one finished run (the live tracer may be restarted by a later run on the
    same sampler object)"""

    def __init__(self, tr):
        self.ev = list(tr.ev)
        self.k, self.kp = tr.k, tr.kp
        self.payloads = list(tr.payloads)
        self.live = tr


def _freeze_tracer(tr):
    return _FrozenTracer(tr)


def _sample_kwargs(c, sampler, urng):
    import inspect
    sample_kw = {}
    sp = inspect.signature(sampler.sample).parameters
    if c["rng_route"] == "sample" and "rng" in sp:
        sample_kw["rng"] = urng
    for k_cfg, k_arg in (("n_steps", "n_steps"), ("min_step", "min_step"), ("max_n_steps", "max_n_steps"),
                         ("n_final", "n_final_samples")):
        if c[k_cfg] is not None and k_arg in sp:
            sample_kw[k_arg] = c[k_cfg]
    sample_kw["adaptive"] = c["adaptive"]
    sample_kw["target_efficiency"] = c["target"]
    sample_kw["target_efficiency_rate"] = c["rate"]
    skw = {}
    if c["sampler"] == "minipcn_smc":
        skw["n_steps"] = c["mcmc_steps"]
    else:
        skw["nsteps"] = c["mcmc_steps"]
        skw["progress"] = False
    if c["n_final_steps"] is not None:
        skw["n_final_steps"] = c["n_final_steps"]
    sample_kw["sampler_kwargs"] = skw
    return sample_kw


def _rerun(c, prev, role):
    """another sample() call on the sampler object of `prev` (no resume): a fresh run as far as the
    property is concerned."""
    tr: Tracer = prev["tracer"].live if hasattr(prev["tracer"], "live") else prev["tracer"]
    sampler = prev["sampler"]
    ids = prev["ids"]
    tr.ev = []
    tr._t0 = None
    tr.k = tr.kp = 0
    tr.payloads = []
    tr.fault_k = c["fault_k"]
    tr.in_kernel = False
    n0 = int(sampler.n_likelihood_evaluations)
    minipcn_stub.reset(); emcee_stub.reset()
    minipcn_stub.OBSERVER = tr.kernel_event
    emcee_stub.OBSERVER = tr.kernel_event
    minipcn_stub.MAX_SAMPLE_CALLS = emcee_stub.MAX_SAMPLE_CALLS = c["budget"]
    verifflow_mod.OBSERVER = tr.flow_event
    orng_stub.CREATED.clear()
    urng = LoggingRNG(np.random.default_rng(c["seed"]), tr)
    import inspect
    attr_only = "rng" not in inspect.signature(type(sampler).__init__).parameters
    if hasattr(sampler, "rng") and (attr_only or c["rng_route"] != "sample"):
        sampler.rng = urng      # (for a class without constructor / call parameter the attribute is the only way in)
    sample_kw = _sample_kwargs(c, sampler, urng)
    prob, flow = prev["prob"], prev["flow"]
    if c.get("reseed_all"):
        # every explicit random source is put back to its seed: the proposal's own generator and
        # numpy's global state (the emcee stand-in copies it), as for a run on a fresh object
        np.random.seed((c["kseed"] if c["kseed"] is not None else c["seed"]) % (2**31))
        if hasattr(flow, "_rng") and hasattr(flow, "seed"):
            flow._rng = np.random.default_rng(flow.seed)

    def cb(state):
        blob = sampler.serialize_checkpoint(state)
        tr.payloads.append(blob)
        e = {"t": "ckpt", "iter": int(state.get("iteration") or 0),
             "_beta": float(state.get("meta", {}).get("beta", float("nan"))),
             "pop": ids.of(state["samples"].x), "size": int(len(state["samples"])),
             "bytes": ids.of_bytes(blob), "_state": state}
        Hs = state.get("history")
        pop = popdict(state["samples"])
        e["_snap"] = {"coh": coherent(pop, prob, flow, 32 if c["dtype"] == "float32" else 64),
                      "width": pop["width"], "has_rng": state.get("rng_state") is not None, "keys": sorted(state.keys()),
                      "lens": _series_len(Hs) if Hs is not None else {},
                      "hbetas": [float(x) for x in Hs.beta] if Hs is not None else [],
                      "hpops": [ids.of(q.x) for q in Hs.sample_history] if Hs is not None else []}
        tr.ev.append(e)
    if c["every"] is not None:
        sample_kw["checkpoint_callback"] = cb
        sample_kw["checkpoint_every"] = c["every"]
    status, exc, result = "ok", "", None
    try:
        result = sampler.sample(c["N"], **sample_kw)
    except InjectedFault as ex:
        status, exc = "fault", str(ex)
    except (minipcn_stub.KernelBudgetExceeded, emcee_stub.KernelBudgetExceeded):
        status = "truncated"
    except Exception as ex:
        status, exc = "raised", f"{type(ex).__name__}: {ex}"
    finally:
        minipcn_stub.OBSERVER = None
        emcee_stub.OBSERVER = None
        verifflow_mod.OBSERVER = None
    import copy as _copy
    return {"cfg": c, "role": role, "status": status, "exc": exc, "tracer": _freeze_tracer(tr), "sampler": sampler,
            "result": result, "urng": urng, "flow": flow, "prob": prob, "ids": ids,
            "orng_created": len(orng_stub.CREATED), "resumed": False, "nlike_offset": n0,
            "hist": _copy.deepcopy(getattr(sampler, "history", None)),
            "nlike_total": int(sampler.n_likelihood_evaluations)}


def run_aspire(cfg: dict, ids: IdTable | None = None, role="single", resume_file=None,
               prefit=True) -> dict:
    """One real run through the top-level API: Aspire(...).fit(...).sample_posterior(sampler=...,
    checkpoint_path=...) with the VerifFlow back-end (entry point), or, if `resume_file` is given,
    Aspire.resume_from_file(file).sample_posterior(<same arguments>).  Checkpoints are written by
    the library's own file callback; the file is read back at every likelihood call."""
    from aspire import Aspire
    from aspire.samples import Samples
    c = dict(DEFAULT)
    c.update(cfg)
    ids = ids or IdTable()
    xp = get_xp(c["ns"])
    prob = Problem(c["dims"], c["width"], c["center"])
    prob.recipe = bool(c["recipe"])
    tr = Tracer(prob, ids, fault_k=c["fault_k"], recipe=c["recipe"], file_path=c["path"])
    tr.ret64 = bool(c.get("ret64"))
    tr.fault_on = c["fault_on"]
    # the measured run may be preceded, inside one auto_checkpoint context, by an earlier fit + run
    # and a refit (cfg["ctx"] = "refit"); the prelude is observed by a throw-away tracer
    tr0 = Tracer(prob, ids, recipe=c["recipe"])
    cur = {"tr": tr0 if c.get("ctx") else tr}
    ctx_cm = None
    minipcn_stub.reset(); emcee_stub.reset()
    minipcn_stub.OBSERVER = tr.kernel_event
    emcee_stub.OBSERVER = tr.kernel_event
    minipcn_stub.SPLIT = c["split"]
    minipcn_stub.SCALE = emcee_stub.SCALE = c["scale"]
    minipcn_stub.MAX_SAMPLE_CALLS = emcee_stub.MAX_SAMPLE_CALLS = c["budget"]
    orng_stub.CREATED.clear()
    np.random.seed((c["kseed"] if c["kseed"] is not None else c["seed"]) % (2**31))
    params = [f"x_{i}" for i in range(c["dims"])]
    gen = np.random.default_rng(c["seed"])
    urng = LoggingRNG(gen, tr)
    status, exc, result, a = "ok", "", None, None
    pre_sampling_ok = True
    try:
        verifflow_mod.OBSERVER = None
        if resume_file is None:
            a = Aspire(log_likelihood=(lambda smp: cur["tr"].log_likelihood(smp)), log_prior=(lambda smp: cur["tr"].log_prior(smp)),
                       dims=c["dims"],
                       parameters=params, prior_bounds={q: [-5.0, 5.0] for q in params},
                       flow_backend="verifflow", xp=xp, dtype=c["dtype"], seed=c["flow_seed"],
                       bounded_to_unbounded=False)
            trng = np.random.default_rng(c["flow_seed"])
            train = trng.normal(0.3, 1.5, size=(64, c["dims"]))
            if c.get("ctx") and c["path"] is not None:
                ctx_cm = a.auto_checkpoint(c["path"], every=c["every"] or 1)
                ctx_cm.__enter__()
            a.fit(Samples(train, xp=xp, dtype=c["dtype"]))
        else:
            a = Aspire.resume_from_file(resume_file, log_likelihood=tr.log_likelihood,
                                        log_prior=tr.log_prior)
        tr.flow = a.flow
        verifflow_mod.OBSERVER = tr.flow_event
        kw = dict(n_samples=c["N"], sampler={"minipcn_smc": "smc", "emcee_smc": "emcee_smc"}[c["sampler"]],
                  adaptive=c["adaptive"], target_efficiency=c["target"],
                  target_efficiency_rate=c["rate"],
                  preconditioning=None if c["precond"] == "default" else c["precond"])
        if c["sampler"] == "minipcn_smc":
            kw["rng"] = urng
            kw["sampler_kwargs"] = {"n_steps": c["mcmc_steps"]}
            for k_cfg, k_arg in (("min_step", "min_step"), ("max_n_steps", "max_n_steps")):
                if c[k_cfg] is not None:
                    kw[k_arg] = c[k_cfg]
        else:
            kw["sampler_kwargs"] = {"nsteps": c["mcmc_steps"], "progress": False}
        if c["n_steps"] is not None:
            kw["n_steps"] = c["n_steps"]
        if c["n_final"] is not None:
            kw["n_final_samples"] = c["n_final"]
        if c["path"] is not None and ctx_cm is None and not (resume_file is not None and c.get("implicit_ckpt")):
            # (implicit_ckpt: an instance rebuilt by resume_from_file keeps checkpointing to that file,
            #  every iteration, without being told again)
            kw["checkpoint_path"] = c["path"]
            if c["every"] is not None:
                kw["checkpoint_every"] = c["every"]
        if ctx_cm is not None:
            # earlier run in the same context, then a refit on other data (no overwrite)
            minipcn_stub.OBSERVER = emcee_stub.OBSERVER = None
            verifflow_mod.OBSERVER = None
            kw0 = dict(kw)
            if "rng" in kw0:
                kw0["rng"] = np.random.default_rng(c["seed"] + 17)
            a.sample_posterior(**kw0)
            a.fit(Samples(trng.normal(-0.4, 0.8, size=(64, c["dims"])), xp=xp, dtype=c["dtype"]))
            cur["tr"] = tr
            tr.flow = a.flow
            minipcn_stub.reset(); emcee_stub.reset()
            minipcn_stub.OBSERVER = emcee_stub.OBSERVER = tr.kernel_event
            verifflow_mod.OBSERVER = tr.flow_event
            minipcn_stub.SPLIT = c["split"]
            minipcn_stub.SCALE = emcee_stub.SCALE = c["scale"]
            minipcn_stub.MAX_SAMPLE_CALLS = emcee_stub.MAX_SAMPLE_CALLS = c["budget"]
        if c.get("explicit_none") and resume_file is None:
            kw["resume_from"] = None        # "not resuming", stated explicitly (resume_from=ckpt if resume else None)
        tr.aspire = a
        result = a.sample_posterior(**kw)
    except InjectedFault as ex:
        status, exc = "fault", str(ex)
    except (minipcn_stub.KernelBudgetExceeded, emcee_stub.KernelBudgetExceeded):
        status = "truncated"
    except Exception as ex:
        status, exc = "raised", f"{type(ex).__name__}: {ex}"
    finally:
        minipcn_stub.OBSERVER = None
        emcee_stub.OBSERVER = None
        verifflow_mod.OBSERVER = None
        if ctx_cm is not None:
            try:
                ctx_cm.__exit__(None, None, None)
            except Exception:
                pass
    sampler = getattr(a, "_sampler", None) if a is not None else None
    if c["path"] is not None:
        fs = read_file_state(c["path"], ids)
        fs["flow_cur"] = flow_currency(fs, getattr(a, "flow", None))
        lb = getattr(sampler, "_last_checkpoint_bytes", None) if sampler is not None else None
        fs["last_bytes"] = ids.of_bytes(lb) if lb else 0
        tr.ev.append({"t": "filecheck", "file": fs, "end": True, "status": status})
    if sampler is not None and not isinstance(getattr(sampler, "rng", None), LoggingRNG):
        pass
    return {"cfg": c, "role": role, "status": status, "exc": exc, "tracer": tr, "sampler": sampler,
            "result": result, "urng": urng, "flow": tr.flow, "prob": prob, "ids": ids, "aspire": a,
            "orng_created": len(orng_stub.CREATED), "resumed": resume_file is not None,
            "via": "aspire"}


# --------------------------------------------------------------------------
# Projection of a group of runs -> JSON for TLC
# --------------------------------------------------------------------------

def _rel_margin(width):
    return 1e-9 if width >= 64 else 2e-4


def project_group(gid: str, runs: list[dict], kind="smc_group") -> dict:
    """Project raw run records (sharing one IdTable) into the abstract trace."""
    # --- rank table over all temperatures seen in the group
    vals = {0.0, 1.0}
    for r in runs:
        H = r["hist"] if "hist" in r else getattr(r["sampler"], "history", None)
        if H is not None:
            vals.update(float(b) for b in H.beta)
        for e in r["tracer"].ev:
            if "_beta" in e and math.isfinite(e["_beta"]):
                vals.add(float(e["_beta"]))
            if "_snap" in e:
                vals.update(e["_snap"]["hbetas"])
        rs = r.get("restore_state")
        if rs is not None:
            if rs.get("history") is not None:
                vals.update(float(b) for b in rs["history"].beta)
            if rs.get("meta", {}).get("beta") is not None:
                vals.add(float(rs["meta"]["beta"]))
    order = sorted(vals)
    rank = {v: i for i, v in enumerate(order)}
    out_runs = []
    for r in runs:
        out_runs.append(_project_run(r, rank))
    c = runs[0]["cfg"]
    cfg = {
        "sampler": c["sampler"], "ns": c["ns"], "dtype": c["dtype"] or "default",
        "width": 32 if c["dtype"] == "float32" else 64, "N": c["N"],
        "adaptive": bool(c["adaptive"]), "n_steps": c["n_steps"] or 0,
        "has_min_step": c["min_step"] is not None, "max_n_steps": c["max_n_steps"] or 0,
        "n_final": c["n_final"] or 0, "every": c["every"] or 0,
        "has_floor": (c["min_step"] is not None) or (c["max_n_steps"] is not None),
        "has_path": c["path"] is not None,
        "precond": c["precond"],
        "rng_route": c["rng_route"] if c["sampler"] == "minipcn_smc" else "none",
        "expect_cfg": bool(runs[0].get("via") == "aspire"),
    }
    return {"id": gid, "kind": kind, "cfg": cfg, "zero": rank[0.0], "one": rank[1.0],
            "runs": out_runs}


def _pop_index(pops_ids, pid):
    return [i for i, q in enumerate(pops_ids) if q == pid]


def _project_run(r, rank) -> dict:
    tr: Tracer = r["tracer"]
    c = r["cfg"]
    ids = r["ids"]
    S = r["sampler"]
    prob, flow = r["prob"], r["flow"]
    H = r["hist"] if "hist" in r else getattr(S, "history", None)
    urng = r["urng"]
    margin = _rel_margin(32 if c["dtype"] == "float32" else 64)

    # populations known to the harness for provenance of `choice`
    hist_pops = [popdict(s) for s in (H.sample_history if H is not None else [])]
    hist_ids = [ids.of(p["x"]) for p in hist_pops]
    betas = [float(b) for b in (H.beta if H is not None else [])]

    evs = []
    tail = []
    last_kinit_rng = None
    rs = r.get("restore_state")
    if rs is not None:
        Hs = rs.get("history")
        b0 = rs.get("meta", {}).get("beta")
        evs.append({"t": "restore", "iter": int(rs.get("iteration") or 0),
                    "beta": rank.get(float(b0), -1) if b0 is not None else -1,
                    "pop": ids.of(rs["samples"].x), "size": int(len(rs["samples"])),
                    "hbetas": [rank.get(float(x), -1) for x in (Hs.beta if Hs is not None else [])],
                    "hpops": [ids.of(q.x) for q in (Hs.sample_history if Hs is not None else [])]})
    for e in tr.ev:
        t = e["t"]
        if t in ("prior", "like", "draw", "logq", "kend"):
            q = {k: v for k, v in e.items() if not k.startswith("_") and k != "file"}
            if "file" in e:   # the file was read when the call started, before its effects
                evs.append({"t": "file", **_file_proj(e["file"]), "end": False, "run_status": ""})
            evs.append(q)
        elif t == "kinit":
            last_kinit_rng = e["_rng"]
            evs.append({"t": "kinit", "rng_user": e["_rng"] is urng})
        elif t == "kbegin":
            evs.append({"t": "kbegin", "z": e["z"], "n": e["n"], "n_steps": e["n_steps"],
                        "beta": rank.get(e["_beta"], -1), "rng_user": e["_rng"] is urng})
        elif t == "choice":
            evs.append(_project_choice(e, hist_pops, betas, rank, c))
        elif t == "ckpt":
            evs.append(_project_ckpt(e, rank, prob, flow, ids, 32 if c["dtype"] == "float32" else 64))
            if "file" in e:
                evs.append({"t": "file", **_file_proj(e["file"]), "end": False, "run_status": ""})
        elif t == "filecheck":
            (tail if e.get("end") else evs).append(
                {"t": "file", **_file_proj(e["file"]), "end": bool(e.get("end", False)),
                 "run_status": e.get("status", "")})
    out = {"role": r["role"], "status": r["status"], "exc": r["exc"][:200], "ev": evs,
           "rcfg": {"every": (c["every"] or (1 if r.get("via") == "aspire" and c["path"] else 0)),
                    "ckpt_events": r.get("via") != "aspire",
                    "adaptive": bool(c["adaptive"]), "n_steps": c["n_steps"] or 0,
                    "n_final": c["n_final"] or 0,
                    "max_n_steps": c["max_n_steps"] or 0, "has_path": c["path"] is not None},
           "resumed": bool(r["resumed"]), "orng_created": int(r["orng_created"]),
           "rng_calls": int(urng.ncalls)}
    if r["status"] == "ok":
        evs.append(_project_final(r, rank, hist_pops, hist_ids, betas, margin))
    elif r["status"] == "fault" and int(r.get("nlike_total", -1)) >= 0:
        # the run was left through an exception raised inside a user call: the counter must account
        # for every batch the likelihood was asked to evaluate, the interrupted one included
        evs.append({"t": "fault", "nlike": int(r["nlike_total"]) - int(r.get("nlike_offset", 0))})
    elif r["status"] == "truncated" and H is not None:
        # still report the schedule seen so far (progress monitor)
        evs.append({"t": "partial", "betas": [rank[b] for b in betas],
                    "iterations": len(betas)})
    evs.extend(tail)
    return out


def _file_proj(f):
    return {"last_bytes": int(f.get("last_bytes", 0)), "exists": bool(f["exists"]), "has_cfg": bool(f["has_cfg"]), "has_flow": bool(f["has_flow"]),
            "blob": int(f["blob"]), "blob_iter": int(f["blob_iter"]), "cfg_sampler": f["cfg_sampler"],
            "loadable": bool(f["loadable"]), "flow_cur": f.get("flow_cur", "none")}


def _project_choice(e, hist_pops, betas, rank, c):
    p = e["_p"]
    n_src = e["n_src"]
    prov = []
    tol = 1e-9 if c["dtype"] != "float32" else 5e-4
    sum_ok = bool(p is not None and abs(float(np.sum(p)) - 1.0) < (1e-6 if c["dtype"] != "float32" else 1e-4))
    if p is not None:
        bl = sorted(set([0.0] + list(betas) + [1.0]))       # (a capped schedule may stop below 1: the final move ends at 1)
        for j, pop in enumerate(hist_pops):
            if len(pop["x"]) != n_src or pop["lq"] is None:
                continue
            for a in range(len(bl)):
                for b in range(a, len(bl)):
                    if b - a > 2 and not (a == 0):
                        continue
                    try:
                        ref = ref_probs(pop, bl[a], bl[b])
                    except Exception:
                        continue
                    if np.allclose(ref, p, rtol=tol * 100, atol=tol):
                        trip = [j, rank[bl[a]], rank[bl[b]]]
                        if trip not in prov:
                            prov.append(trip)
    return {"t": "choice", "n_src": n_src, "size": e["size"], "prov": prov, "sum_ok": sum_ok,
            "rng_user": True}


def _series_len(H):
    return {k: len(getattr(H, k)) for k in ("beta", "ess", "ess_target", "eff_target", "log_norm_ratio",
                                            "log_norm_ratio_var", "mcmc_acceptance", "mcmc_autocorr",
                                            "sample_history")}


def _project_ckpt(e, rank, prob, flow, ids, req_width=64):
    sn = e["_snap"]
    b = e["_beta"]
    return {"t": "ckpt", "iter": e["iter"], "beta": rank.get(b, -1), "pop": e["pop"], "size": e["size"],
            "bytes": e["bytes"], "coh": [bool(x) if x is not None else True for x in sn["coh"]],
            "width": sn["width"], "has_rng": sn["has_rng"], "keys": sn["keys"],
            "lens": sn["lens"] or {"beta": 0, "ess": 0, "ess_target": 0, "eff_target": 0, "log_norm_ratio": 0,
                                   "log_norm_ratio_var": 0, "mcmc_acceptance": 0, "mcmc_autocorr": 0, "sample_history": 0},
            "hbetas": [rank.get(float(x), -1) for x in sn["hbetas"]], "hpops": list(sn["hpops"])}


def _project_final(r, rank, hist_pops, hist_ids, betas, margin):
    c = r["cfg"]
    S = r["sampler"]
    H = r["hist"] if r.get("hist") is not None else S.history
    res = r["result"]
    ids = r["ids"]
    prob, flow = r["prob"], r["flow"]
    N = c["N"]
    T = len(betas)
    w = 32 if c["dtype"] == "float32" else 64
    rel = 1e-9 if w == 64 else 1e-3
    tol = c["tol"] if c["tol"] is not None else 1e-6
    out = {"t": "final", "iterations": T, "size": int(len(res.x)),
           "betas": [rank[b] for b in betas],
           "in_unit": [bool(0.0 < b <= 1.0) for b in betas],
           "pops": hist_ids, "sizes": [int(len(p["x"])) for p in hist_pops],
           "lens": _series_len(H), "nlike": int(r.get("nlike_total", S.n_likelihood_evaluations)) - int(r.get("nlike_offset", 0)),
           "widths": sorted({w_ for p in hist_pops for w_ in p.get("fwidths", [p["width"]])} | {width_of(res.x)}
                            | {width_of(v) for v in (res.log_likelihood, res.log_prior, res.log_q) if v is not None}),
           "res_width": width_of(res.x), "res_ns": ns_of(res.x),
           "res_pop": ids.of(res.x)}
    # coherence of every stored population and of the result
    coh = []
    for p in hist_pops:
        cc = coherent(p, prob, flow, w)
        coh.append([bool(x) if x is not None else True for x in cc])
    out["coh"] = coh
    rp = {"x": to_np(res.x), "ll": to_np(res.log_likelihood), "lp": to_np(res.log_prior),
          "lq": None, "width": width_of(res.x)}
    cc = coherent(rp, prob, flow, w)
    out["res_coh"] = [bool(cc[0]), bool(cc[1])]
    out["finite_prior"] = bool(len(hist_pops) == 0 or np.all(np.isfinite(hist_pops[0]["lp"])))
    out["init_size"] = int(len(hist_pops[0]["x"])) if hist_pops else -1
    # floor / schedule flags
    floor_ok = []
    rs_ = r.get("restore_state")
    start_it = int(rs_.get("iteration") or 0) if rs_ is not None else 0    # steps taken by an earlier call obeyed that call's options
    for t in range(T):
        bp = betas[t - 1] if t > 0 else 0.0
        b = betas[t]
        if c["min_step"] is None or t < start_it:
            floor_ok.append("yes")
        else:
            step = b - bp
            if b == 1.0:
                floor_ok.append("yes")
            else:
                floor_ok.append(flag(step, c["min_step"], 1e-9))
    out["floor_ok"] = floor_ok
    # provenance of recorded diagnostics & C07 flags
    bl = [0.0] + betas
    ess_ok, ratio_ok, var_ok, meets, next_meets, meets_one, forced, at_one = [], [], [], [], [], [], [], []
    ratio_prov, ess_prov = [], []
    have_pops = len(hist_pops) >= T + 1 and all(p["lq"] is not None for p in hist_pops[:T + 0])
    out["have_pops"] = bool(have_pops)
    tgt = c["target"]

    def target_at(beta):
        if isinstance(tgt, (tuple, list)):
            return tgt[0] + (tgt[1] - tgt[0]) * (beta ** c["rate"])
        return tgt

    ratios = [float(x) for x in H.log_norm_ratio]
    rvars = [float(x) for x in H.log_norm_ratio_var]
    esss = [float(x) for x in H.ess]
    if have_pops:
        for t in range(1, T + 1):
            pop = hist_pops[t - 1]
            bf, bt = bl[t - 1], bl[t]
            def near(a, b):
                if not (math.isfinite(a) and math.isfinite(b)):
                    return (math.isnan(a) and math.isnan(b)) or a == b
                return abs(a - b) <= rel * 10 * (1 + abs(b))
            # which (pop, b_from, b_to) reproduces the stored values?  neighbours only
            rp_, ep_ = [], []
            for j in sorted({t - 2, t - 1, t} & set(range(len(hist_pops)))):
                pj = hist_pops[j]
                if pj["lq"] is None:
                    continue
                for (a, b) in {(t - 2, t - 1), (t - 1, t), (t - 1, t + 1), (t, t + 1), (0, t), (t - 2, t)}:
                    if a < 0 or b >= len(bl) or a >= b:
                        continue
                    try:
                        if t - 1 < len(ratios) and near(ratios[t - 1], ref_ratio(pj, bl[a], bl[b])):
                            rp_.append([j, rank[bl[a]], rank[bl[b]]])
                        if t - 1 < len(esss) and near(esss[t - 1], ref_ess(pj, bl[a], bl[b])):
                            ep_.append([j, rank[bl[a]], rank[bl[b]]])
                    except Exception:
                        pass
            ratio_prov.append(sorted(rp_))
            ess_prov.append(sorted(ep_))
            vr = ref_ratio_var(pop, bf, bt)
            var_ok.append(bool(t - 1 < len(rvars) and near(rvars[t - 1], vr)))
            # C07 flags
            target = target_at(bf)
            n = len(pop["x"])
            e_b = ref_ess(pop, bf, bt) / n
            e_n = ref_ess(pop, bf, min(1.0, bt + tol)) / n
            e_1 = ref_ess(pop, bf, 1.0) / n
            mrel = 1e-7 if w == 64 else 5e-3
            mb = flag(e_b, target, mrel)
            if mb == "no":
                # "within the stated tolerance": some temperature in [b - tol, b] is admissible
                lo_b = max(bf, bt - tol)
                e_lo = 1.0 if lo_b <= bf else ref_ess(pop, bf, lo_b) / n
                if flag(e_lo, target, mrel) != "no":
                    mb = "near"
            meets.append(mb)
            nm = flag(e_n, target, mrel)
            if bt + tol >= 1.0 and bt < 1.0:
                nm = flag(e_1, target, mrel)
            next_meets.append(nm)
            meets_one.append(flag(e_1, target, mrel))
            at_one.append(bt == 1.0)
            if c["min_step"] is not None:
                forced.append(abs((bt - bf) - c["min_step"]) <= 1e-12 or (bt == 1.0 and bf + c["min_step"] >= 1.0))
            elif c["max_n_steps"] is not None:
                forced.append(True)   # evolving floor: cannot be sized exactly from outside
            else:
                forced.append(False)
    out.update({"ratio_prov": ratio_prov, "ess_prov": ess_prov, "var_ok": var_ok, "meets": meets,
                "next_meets": next_meets, "meets_one": meets_one, "forced": forced, "at_one": at_one})
    # evidence
    lz = float(to_np(res.log_evidence)) if res.log_evidence is not None else float("nan")
    lze = float(to_np(res.log_evidence_error)) if res.log_evidence_error is not None else float("nan")
    s_ref = float(np.sum(np.asarray(ratios, dtype=LD))) if ratios else 0.0
    e_ref = float(np.sqrt(np.sum(np.asarray(rvars, dtype=LD)))) if rvars else 0.0
    etol = 1e-10 if w == 64 else 1e-4
    out["sum_ok"] = bool(abs(lz - s_ref) <= etol * (1 + abs(s_ref)))
    out["err_ok"] = bool(abs(lze - e_ref) <= etol * (1 + abs(e_ref)) or (math.isnan(lze) and math.isnan(e_ref)))
    out["logz"] = ids.of(np.array([lz]))
    out["logzerr"] = ids.of(np.array([lze]))
    out["ratio_ids"] = [ids.of(np.array([x])) for x in ratios]
    out["series_ids"] = {k: ids.of(np.asarray([float(to_np(v)) for v in getattr(H, k)], dtype=np.float64))
                         for k in ("beta", "ess", "ess_target", "eff_target", "log_norm_ratio",
                                   "log_norm_ratio_var", "mcmc_acceptance")}
    out["res_ll"] = ids.of(res.log_likelihood)
    return out
