#!/bin/bash
# line coverage of /repo/src/aspire under the checks (diagnostic, not a registered check):
#   harness/coverage_run.sh [tier] [ids...]  -> .work/cov/report.txt
tier=${1:-quick}; shift
ids=${@:-C02 C03 C04 C05 C06 C07 C08 C09 C10 C11 C12 C13 C14 C15 C16 C17 C18 C19 C20}
HERE=/verif
COV=$HERE/.work/cov; rm -rf $COV; mkdir -p $COV
cat > $COV/rc <<RC
[run]
source = /repo/src/aspire
parallel = True
concurrency = multiprocessing,thread
sigterm = True
data_file = $COV/data
[report]
show_missing = True
RC
export PYTHONPATH="/repo/src:$HERE/harness/stubs:$HERE/harness"
export PYTHONDONTWRITEBYTECODE=1 PYTHONHASHSEED=0 SCIPY_ARRAY_API=1 ASPIRE_VERIF=1
export OMP_NUM_THREADS=1 MKL_NUM_THREADS=1 OPENBLAS_NUM_THREADS=1 JAX_PLATFORMS=cpu TQDM_DISABLE=1 TF_CPP_MIN_LOG_LEVEL=3
export VERIF_EVIDENCE_DIR=$COV/evidence
cd $HERE
for p in $ids; do
  /venv/bin/python -W ignore -m coverage run --rcfile=$COV/rc harness/main.py $p --tier $tier > $COV/$p.log 2>&1
  echo "$p rc=$?"
done
/venv/bin/python -m coverage combine --rcfile=$COV/rc > /dev/null 2>&1
/venv/bin/python -m coverage report --rcfile=$COV/rc > $COV/report.txt 2>&1
tail -40 $COV/report.txt | cut -c1-200
