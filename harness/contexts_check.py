"""C19: Contexts.tla exhaustive + every edge of the dumped state graph replayed on a real Aspire
instance with real PoolHandler / auto_checkpoint context managers and a recording fake pool."""
from __future__ import annotations

import functools
import json
import random
import re
import sys
import time

import common
import stategraph
from common import MachineryError, Verdict, write_evidence, STD_ASSUMPTIONS


BAD_POOLS = {"p2"}      # Contexts.tla: BadPools


class PoolJoinError(RuntimeError):
    pass


class FakePool:
    def __init__(self, name):
        self.name = name
        self.closed = 0
        self.joined = 0

    def map(self, fn, it):
        return list(map(fn, it))

    def close(self):
        self.closed += 1

    def join(self):
        if self.name in BAD_POOLS:
            raise PoolJoinError(f"worker of {self.name} lost")
        self.joined += 1


def base_ll(samples, map_fn=map):
    return 0.0


def base_lp(samples, map_fn=map):
    return 0.0


def base_ll1(samples, map_fn=map):
    return 1.0


def base_lp1(samples, map_fn=map):
    return 1.0


class Real:
    def __init__(self):
        from aspire import Aspire
        self.a = Aspire(log_likelihood=base_ll, log_prior=base_lp, dims=2, parameters=["a", "b"])
        self.pools = {"p1": FakePool("p1"), "p2": FakePool("p2")}
        self.stack = []   # (cm, kind, snapshot, poolname, close)
        self.handlers = []  # (PoolHandler, poolname, close)

    def term(self, f, names):
        for base, name in names.items():
            if f is base:
                return {"f": name, "pool": "none"}
        if isinstance(f, functools.partial):
            mf = f.keywords.get("map_fn")
            pool = getattr(mf, "__self__", None)
            inner = f.func
            return {"f": names.get(inner, "?"), "pool": getattr(pool, "name", "?")}
        return {"f": "?", "pool": "?"}

    def defaults(self):
        d = getattr(self.a, "_checkpoint_defaults", None)
        if d is None:
            return {"on": False, "path": "none", "every": 0, "save_config": False}
        return {"on": True, "path": str(d["path"]), "every": int(d["every"]), "save_config": bool(d["save_config"])}

    def project(self):
        return {"L": self.term(self.a.log_likelihood, {base_ll: "L0", base_ll1: "L1"}),
                "P": self.term(self.a.log_prior, {base_lp: "P0", base_lp1: "P1"}),
                "defaults": self.defaults(), "depth": len(self.stack),
                "closed": {k: v.closed for k, v in self.pools.items()},
                "joined": {k: v.joined for k, v in self.pools.items()}}

    def snap(self):
        d = getattr(self.a, "_checkpoint_defaults", None)
        return (self.a.log_likelihood, self.a.log_prior, None if d is None else dict(d))

    def pop_one(self, exc):
        cm, kind, snap, pname, close = self.stack.pop()
        viol = []
        before_closed = {k: v.closed for k, v in self.pools.items()}
        expect_join_error = (kind == "pool" and close and pname in BAD_POOLS)
        if exc is None:
            try:
                r = cm.__exit__(None, None, None)
                if expect_join_error:
                    viol.append("conf_join_error_expected: closing a bad pool did not raise")
            except PoolJoinError:
                r = False
                if not expect_join_error:
                    viol.append("ExitRaised: leaving the block raised PoolJoinError for a pool that was not to be closed")
        else:
            try:
                r = cm.__exit__(type(exc), exc, exc.__traceback__)
            except PoolJoinError as ex:
                r = False
                if not expect_join_error:
                    viol.append("ExceptionChanged: PoolJoinError instead of the injected one")
            except BaseException as ex:   # contextmanager re-raises the same exception object
                r = False
                if ex is not exc:
                    viol.append(f"ExceptionChanged: {type(ex).__name__} instead of the injected one")
            if r:
                viol.append("ExceptionSwallowed: __exit__ returned a true value")
        now = self.snap()
        if now[0] is not snap[0]:
            viol.append("ContextsRestored: log_likelihood is not the object it was on entry")
        if now[1] is not snap[1]:
            viol.append("ContextsRestored: log_prior is not the object it was on entry")
        if now[2] != snap[2]:
            viol.append(f"ContextsRestored: checkpoint defaults {now[2]} != on entry {snap[2]}")
        for k, v in self.pools.items():
            want = before_closed[k] + (1 if (kind == "pool" and pname == k and close) else 0)
            if v.closed != want:
                viol.append(f"PoolClosedIffAsked: pool {k} closed {v.closed - before_closed[k]} time(s), asked {want - before_closed[k]}")
        return viol

    def apply(self, label):
        m = re.match(r"(\w+)(?:\((.*)\))?$", label.strip())
        name = m.group(1)
        args = []
        if m.group(2):
            for tok in m.group(2).split(","):
                tok = tok.strip()
                args.append(True if tok == "TRUE" else False if tok == "FALSE" else (int(tok) if tok.isdigit() else tok.strip('"')))
        viol = []
        if name == "MakePool":
            p, c, pp, use = args
            # pool=None + close_pool=True is invalid use (PoolHandler would call None.close()): callers skip it
            cm = self.a.enable_pool(self.pools[p] if use else None, close_pool=c, parallelize_prior=pp)
            self.handlers.append((cm, p, c))
        elif name == "EnterPool":
            cm, p, c = self.handlers[args[0] - 1]
            snap = self.snap()
            cm.__enter__()
            self.stack.append((cm, "pool", snap, p, c))
        elif name == "SetL":
            self.a.log_likelihood = base_ll1
        elif name == "SetP":
            self.a.log_prior = base_lp1
        elif name == "EnterAuto":
            path, ev, sc = args
            snap = self.snap()
            cm = self.a.auto_checkpoint(path + ".h5", every=ev, save_config=sc)
            cm.__enter__()
            self.stack.append((cm, "auto", snap, None, False))
        elif name == "Exit":
            viol += self.pop_one(None)
        elif name == "Raise":
            k = args[0]
            kind = {"RuntimeError": RuntimeError, "KeyboardInterrupt": KeyboardInterrupt,
                    "SystemExit": SystemExit}[args[1] if len(args) > 1 else "RuntimeError"]
            try:
                raise kind("injected")
            except BaseException as e:
                exc = e
            for _ in range(k):
                viol += self.pop_one(exc)
        else:
            raise MachineryError(label)
        return viol


def mview(st):
    return {"L": dict(st["L"]), "P": dict(st["P"]),
            "defaults": {"on": st["defaults"]["on"], "path": st["defaults"]["path"] + (".h5" if st["defaults"]["on"] else ""),
                         "every": st["defaults"]["every"], "save_config": st["defaults"]["save_config"]},
            "depth": len(st["stack"])}


def replay(job):
    labels, states = job
    res = {"labels": labels, "viol": [], "drift": None}
    try:
        r = Real()
        for i, lab in enumerate(labels):
            # the model's pool=None + close=True combination is not valid use of the API
            v = r.apply(lab)
            for x in v:
                res["viol"].append({"what": x, "labels": labels[: i + 1]})
            exp = states[i]
            if exp is not None and res["drift"] is None:
                mv = mview(exp)
                rv = r.project()
                rv2 = {k: rv[k] for k in ("L", "P", "defaults", "depth")}
                if mv != rv2:
                    res["drift"] = {"at": i, "model": mv, "real": rv2}
    except MachineryError:
        raise
    except Exception:
        import traceback
        res["error"] = traceback.format_exc()
    return res


def main(prop, tier, seed, replay_path=None):
    import multiprocessing as mp
    import os
    t0 = time.time()
    rnd = random.Random(seed + 3)
    verdict = Verdict(prop)
    wd = common.workdir("ctx")
    try:
        cfg = wd / "e1.cfg"
        cfg.write_text("SPECIFICATION Spec\nCONSTANTS\n  Pools = {\"p1\", \"p2\"}\n  MaxDepth = 3\n  MaxHandlers = 2\n  BadPools = {\"p2\"}\n"
                       "  PoolOpts <- AllPoolOpts\n  AutoOpts <- AllAutoOpts\n"
                       f"  MaxOps = {6 if tier == 'quick' else 8}\nINVARIANT ContextsRestored\nINVARIANT PoolClosedIffAsked\nINVARIANT AllClosedMeansPristine\n")
        r1 = common.run_tlc("Contexts", str(cfg), workers=16, metaname="ctx-e1")
        common.require_tlc_ok(r1, "Contexts")
        for inv in r1.violated:
            verdict.model_drift(f"Contexts.tla: {inv} violated at design level")
        g_cfg = wd / "g.cfg"
        # deep replay graph over reduced option sets (handlers prepared up front, entered later, entered
        # again after use, the user's reassignments in between); thorough adds a shallow graph over all options
        g_cfg.write_text("SPECIFICATION Spec\nCONSTANTS\n  Pools = {\"p1\", \"p2\"}\n  MaxDepth = 3\n  MaxHandlers = 2\n  BadPools = {\"p2\"}\n"
                         "  PoolOpts <- FewPoolOpts\n  AutoOpts <- FewAutoOpts\n"
                         f"  MaxOps = {6 if tier == 'quick' else 7}\n")
        g, rg = stategraph.dump_graph("Contexts", str(g_cfg), "contexts")
    finally:
        common.cleanup(wd)
    if replay_path:
        scen = json.loads(open(replay_path).read())["scenario"]
        jobs = [(scen["params"]["labels"], [None] * len(scen["params"]["labels"]))]
    else:
        edges = list(g.edges)
        rnd.shuffle(edges)
        if tier == "quick":
            edges = edges[:12000]
        jobs = []
        for (u, v, lab) in edges:
            # pool=None with close_pool=True is not a valid use (PoolHandler would call None.close())
            _, path = g.path_to(u)
            labels = [l for (_, l) in path] + [lab]
            if any(re.match(r'MakePool\("p\d",TRUE,(TRUE|FALSE),FALSE\)', l) for l in labels):
                continue
            states = [g.nodes[n] for (n, _) in path] + [g.nodes[v]]
            jobs.append((labels, states))
    ctx = mp.get_context("fork")
    with ctx.Pool(min(16, os.cpu_count() or 4)) as pool:
        results = pool.map(replay, jobs, chunksize=max(1, len(jobs) // 64))
    errs = [r for r in results if "error" in r]
    if errs:
        raise MachineryError(f"{len(errs)} replays crashed, first:\n{errs[0]['error']}")
    nviol = 0
    for r in results:
        for v in r["viol"]:
            nviol += 1
            clause = v["what"].split(":")[0]
            kinds = ";".join(re.sub(r"\(.*", "", l) for l in v["labels"])
            verdict.violation(f"{clause}|{kinds}", f"{v['what']} after {' ; '.join(v['labels'])}",
                              replay={"builder": "contexts_path", "params": {"labels": v["labels"]}})
    drifts = [r for r in results if r["drift"]]
    for r in drifts[:3]:
        verdict.model_drift(f"Contexts: after {' ; '.join(r['labels'][: r['drift']['at'] + 1])}: model {r['drift']['model']} vs code {r['drift']['real']}")
    # binding self-test: a manager that does not restore must be rejected by the judge
    rr = Real()
    rr.apply('MakePool("p1",FALSE,TRUE,TRUE)')
    rr.apply('EnterPool(1)')
    cm, kind, snap, pname, close = rr.stack[-1]
    cm.original_log_prior = base_ll     # sabotage the manager's saved value
    st = rr.pop_one(None)
    if not any("log_prior" in x for x in st):
        raise MachineryError("C19 self-test: sabotaged restore not detected")
    rc, n_unlisted, known = verdict.finish()
    distinct = {tuple(re.sub(r',"f\d"', "", l) for l in r["labels"]) for r in results if len(r["labels"]) >= 2}
    cov = {"states": int(r1.distinct + rg.distinct), "transitions": int(r1.generated + rg.generated),
           "traces_validated_against_impl": len(results),
           "samples": [{"history": r["labels"]} for r in results[:3]],
           "evaluations": len(results), "distinct_nontrivial": len(distinct),
           "rule": "replayed edges of the TLC state graph of Contexts.tla (shortest history to the source state + the edge operation on a fresh real instance); distinct = distinct operation sequences of length >= 2 modulo the file name",
           "exhaustive": tier != "quick",
           "design_level": {"module": "Contexts", "distinct_states": r1.distinct, "states_generated": r1.generated, "violated": r1.violated},
           "graph": {"states": len(g.nodes), "edges": len(g.edges), "edges_replayed": len(jobs)},
           "conformance_rejections": len(drifts), "real_state_violations": nviol,
           "binding_selftest": "sabotaged PoolHandler.original_log_prior rejected", "known_findings_hit": known}
    write_evidence(prop, tier, seed, time.time() - t0, cov, STD_ASSUMPTIONS[2:] + [
        "a recording fake pool object stands for multiprocessing.Pool (map/close/join)",
        "contexts are entered and left through __enter__/__exit__ exactly as a with-statement does, with a real exception object and traceback for Raise"], n_unlisted)
    return rc
