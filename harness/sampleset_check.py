"""C16 / C15 (spec -> code): every (initial object, operation sequence) case enumerated by TLC
from SampleSet.tla is executed on the real sample classes; the projection of the real result
is compared with the reference model's result after every operation."""
from __future__ import annotations

import json
import math
import multiprocessing as mp
import os
import pickle
import random
import time

import numpy as np

import common
import tlacases
from common import MachineryError, Verdict, write_evidence, STD_ASSUMPTIONS

PARAMS = ("q", "alpha")
EV_ATTACHED = -3.25
EVERR_ATTACHED = 0.125


def build(init):
    import smcdrv
    from aspire.samples import BaseSamples, Samples, SMCSamples
    xp = smcdrv.get_xp(init["ns"])
    n = len(init["rows"])
    i = np.arange(1, n + 1, dtype=np.float64)
    x = np.stack([i, i + 0.5], axis=1)
    kw = {}
    if "ll" in init["fields"]:
        kw["log_likelihood"] = 10.0 * i
    if "lp" in init["fields"]:
        kw["log_prior"] = -1.0 * i
    if "lq" in init["fields"]:
        kw["log_q"] = 0.25 * i
    dt = "float32" if init["width"] == 32 else "float64"
    kw["parameters"] = list(PARAMS)      # deliberately not in sorted order
    if init["cls"] == "Base":
        return BaseSamples(x, xp=xp, dtype=dt, **kw)
    evv = 0.0 if init.get("ev") == "attached0" else EV_ATTACHED
    if init["cls"] == "Samples":
        if init.get("ev") in ("attached", "attached0"):
            return Samples(x, xp=xp, dtype=dt, log_evidence=evv, log_evidence_error=EVERR_ATTACHED, **kw)
        return Samples(x, xp=xp, dtype=dt, **kw)
    return SMCSamples(x, xp=xp, dtype=dt, beta=0.5, log_evidence=evv,
                      log_evidence_error=EVERR_ATTACHED, **kw)


def pyslice(sel):
    a, b, st = sel["a"], sel["b"], sel["st"]
    if st < 0 and b < 0:
        b = None
    return slice(a, b, st)


def apply_op(obj, op, case_index=0):
    import smcdrv
    kind = op["op"]
    xp = obj.xp
    if kind == "select":
        sel = op["sel"]
        f = sel["form"]
        if f == "int":
            return obj[sel["a"]]
        if f == "slice":
            return obj[pyslice(sel)]
        if f == "mask":
            m = np.zeros(len(obj), dtype=bool)
            m[list(sel["idx"])] = True
            return obj[xp.asarray(m)]
        if f == "index":
            return obj[xp.asarray(np.asarray(sel["idx"], dtype=np.int64))]
        if f == "masklist":
            m = [False] * len(obj)
            for k in sel["idx"]:
                m[k] = True
            return obj[m]
        if f == "indexlist":
            return obj[[int(k) for k in sel["idx"]]]
    if kind == "partconcat":
        cuts = [0] + list(op["cuts"]) + [len(obj)]
        pieces = [obj[cuts[k]:cuts[k + 1]] for k in range(len(cuts) - 1)]
        return type(obj).concatenate(pieces)
    if kind == "pickle":
        return pickle.loads(pickle.dumps(obj))
    if kind == "dict":
        return type(obj).from_dict(obj.to_dict(flat=op["flat"]))
    if kind == "to_namespace":
        if op.get("dt"):
            name = "float32" if op["dt"] == 32 else "float64"
            form = case_index % 3       # string, NumPy dtype object, string again
            return obj.to_namespace(smcdrv.get_xp(op["ns"]), dtype=(np.dtype(name) if (form == 1 and op["ns"] != "torch") else name))
        return obj.to_namespace(smcdrv.get_xp(op["ns"]))
    if kind == "to_numpy":
        return obj.to_numpy()
    if kind == "from_samples":
        txp = smcdrv.get_xp(op["ns"])
        d = op["dt"]
        kw = {}
        if d:
            name = "float32" if d == 32 else "float64"
            # rotate through the accepted spellings: string, target-native object, numpy dtype object
            form = case_index % 3
            if form == 0:
                kw["dtype"] = name
            elif form == 1:
                if op["ns"] == "torch":
                    import torch
                    kw["dtype"] = getattr(torch, name)
                else:
                    kw["dtype"] = txp.dtype(name) if hasattr(txp, "dtype") else np.dtype(name)
            else:
                kw["dtype"] = np.dtype(name) if op["ns"] != "torch" else name
        return type(obj).from_samples(obj, xp=txp, **kw)
    raise MachineryError(f"unknown op {op}")


def project(obj, ev0):
    import smcdrv
    x = smcdrv.to_np(obj.x)
    oned = x.ndim == 1
    ids = [int(round(float(x[0])))] if oned else [int(round(float(v))) for v in x[:, 0]]
    out = {"cls": {"BaseSamples": "Base", "Samples": "Samples", "SMCSamples": "SMC"}.get(type(obj).__name__, type(obj).__name__),
           "ns": smcdrv.ns_of(obj.x), "width": smcdrv.width_of(obj.x), "rows": ids, "oned": bool(oned)}
    fields = set()
    aligned = True
    consistent = True
    xok = True
    if not oned:
        xok = bool(np.array_equal(x[:, 1], x[:, 0] + 0.5))
    out["params_ok"] = list(obj.parameters) == list(PARAMS)
    for name, attr, inv in (("ll", "log_likelihood", lambda v: v / 10.0), ("lp", "log_prior", lambda v: -v),
                            ("lq", "log_q", lambda v: v * 4.0)):
        v = getattr(obj, attr)
        if v is None:
            continue
        fields.add(name)
        if smcdrv.ns_of(v) != out["ns"] or smcdrv.width_of(v) != out["width"]:
            consistent = False
        vn = np.atleast_1d(smcdrv.to_np(v)).astype(np.float64)
        got = [int(round(float(t))) for t in inv(vn)]
        if got != ids or not np.array_equal(inv(vn), np.asarray(ids, dtype=np.float64)):
            aligned = False
    out["fields"] = sorted(fields)
    out["aligned"] = aligned and xok
    out["consistent"] = consistent
    # weights
    wok = True
    if type(obj).__name__ == "Samples" and fields == {"ll", "lp", "lq"}:
        lw = getattr(obj, "log_w", None)
        w = getattr(obj, "weights", None)
        if lw is None or w is None:
            wok = False
        else:
            lwn = np.atleast_1d(smcdrv.to_np(lw)).astype(np.float64)
            wn = np.atleast_1d(smcdrv.to_np(w)).astype(np.float64)
            exp_lw = 8.75 * np.asarray(ids, dtype=np.float64)
            tol = 1e-12 if out["width"] == 64 else 1e-5
            wok = bool(lwn.shape == exp_lw.shape and np.allclose(lwn, exp_lw, rtol=tol, atol=0)
                       and np.allclose(wn, np.exp(exp_lw), rtol=1e-5 if out["width"] == 32 else 1e-10))
    out["weights_ok"] = wok
    # evidence
    le = getattr(obj, "log_evidence", None)
    if le is None:
        out["ev"] = "none"
    else:
        lev = float(np.asarray(smcdrv.to_np(le)).reshape(-1)[0])
        lerr = getattr(obj, "log_evidence_error", None)
        lerr = None if lerr is None else float(np.asarray(smcdrv.to_np(lerr)).reshape(-1)[0])
        # the evidence a set carries is the estimate *and* its error estimate
        if lev == 0.0 and lerr is not None and abs(lerr - EVERR_ATTACHED) < 1e-9:
            out["ev"] = "attached0"
        elif abs(lev - EV_ATTACHED) < 1e-9:
            out["ev"] = "attached" if (lerr is not None and abs(lerr - EVERR_ATTACHED) < 1e-9) else f"attached-with-other-error:{lerr!r}"
        elif ev0 is not None and abs(lev - ev0[0]) <= 1e-5 * (1 + abs(ev0[0])):
            out["ev"] = "own" if (lerr is not None and abs(lerr - ev0[1]) <= (1e-5 if 32 in (out["width"], ev0[2]) else 1e-9) * (1 + abs(ev0[1]))) else f"own-with-other-error:{lerr!r} (original {ev0[1]!r})"
        else:
            out["ev"] = f"other:{lev:.6g}"
    return out


def run_case(arg):
    ci, case = arg
    res = {"i": ci, "viol": [], "n_ops": len(case["ops"])}
    try:
        init = case["init"]
        obj = build(init)
        if init["ns"] == "torch" and "ll" in init["fields"] and ci % 4 == 1 \
                and all(o["op"] in ("select", "dict", "pickle", "partconcat") for o in case["ops"]):
            # the log-likelihood is the result of a differentiable computation (a non-leaf tensor)
            import torch
            w_ = torch.ones(1, requires_grad=True, dtype=obj.log_likelihood.dtype)
            obj.log_likelihood = obj.log_likelihood * w_
        ev0 = None
        if init["ev"] == "own":
            import smcdrv
            ev0 = (float(np.asarray(smcdrv.to_np(obj.log_evidence)).reshape(-1)[0]),
                   float(np.asarray(smcdrv.to_np(obj.log_evidence_error)).reshape(-1)[0]), init["width"])
        for k, op in enumerate(case["ops"]):
            label = op["op"] + (":" + op["sel"]["form"] if op["op"] == "select" else "") + \
                (":" + op.get("ns", "") if op["op"] in ("to_namespace", "from_samples") else "") + \
                (":flat" if op.get("flat") else "")
            tag = f"{init['cls']}|{label}|{init['ns']}"
            if op["op"] == "select" and op["sel"]["form"] == "slice" and op["sel"]["st"] < 0 and obj.xp.__name__.endswith("torch"):
                res["skipped"] = "torch tensors do not support negative slice steps"
                return res
            if op["op"] == "select" and op["sel"]["form"] in ("masklist", "indexlist") and "jax" in obj.xp.__name__:
                res["skipped"] = "jax arrays do not accept Python lists as indices"
                return res
            src_before = project(obj, ev0)
            src_obj = obj
            try:
                obj = apply_op(obj, op, ci)
            except Exception as ex:
                res["viol"].append((f"OpRaises|{tag}|{type(ex).__name__}", f"{label} on {init['cls']}[{init['ns']},{init['width']},{sorted(init['fields'])}] raised {type(ex).__name__}: {str(ex)[:160]}"))
                return res
            exp = op["res"]
            if k == 0 and project(src_obj, ev0) != src_before:
                res["viol"].append((f"SourceUnchanged|{tag}", f"{label} changed the sample set it was applied to"))
            got = project(obj, ev0)
            if got["cls"] != exp["cls"]:
                res["viol"].append((f"ClassKept|{tag}", f"class {got['cls']} != {exp['cls']}"))
            if got["ns"] != exp["ns"]:
                res["viol"].append((f"NamespaceKept|{tag}", f"namespace {got['ns']} != {exp['ns']} after {label}"))
            if got["width"] != exp["width"]:
                res["viol"].append((f"WidthKept|{tag}", f"float width {got['width']} != {exp['width']} after {label}"))
            if not got["consistent"]:
                res["viol"].append((f"WidthKept|fields|{tag}", f"a per-sample field has another namespace/width than x after {label}"))
            if sorted(exp["fields"]) != got["fields"]:
                res["viol"].append((f"FieldsKept|{tag}", f"fields {got['fields']} != {sorted(exp['fields'])} after {label}"))
            if list(exp["rows"]) != got["rows"] or not got["aligned"]:
                res["viol"].append((f"RowsAligned|{tag}", f"rows {got['rows']} aligned={got['aligned']} != model rows {list(exp['rows'])} after {label}"))
            if not got["params_ok"]:
                res["viol"].append((f"RowsAligned|parameters|{tag}", f"parameter names / order changed after {label}"))
            if not got["weights_ok"]:
                res["viol"].append((f"RowsAligned|weights|{tag}", f"log_w / weights are not the selection of the original ones after {label}"))
            if exp["ev"] != "none" and got["ev"] != exp["ev"]:
                res["viol"].append((f"EvidenceCarried|{tag}", f"evidence {got['ev']} but model says {exp['ev']} (carried, not recomputed) after {label}"))
            if got["oned"] != exp["oned"]:
                res["viol"].append((f"conf_oned|{tag}", "dimensionality differs from the model"))
            if res["viol"]:
                break
    except MachineryError:
        raise
    except Exception:
        import traceback
        res["error"] = traceback.format_exc()
    return res


def main(prop, tier, seed, replay_path=None):
    t0 = time.time()
    rnd = random.Random(seed + 11)
    verdict = Verdict(prop)
    mode = "algebra" if prop == "C16" else "convert"
    nss = ["numpy", "torch", "jax"]
    consts = {"NRows": "= 4", "Classes": '= {"Base", "Samples", "SMC"}',
              "Namespaces": "= {" + ", ".join(f'"{n}"' for n in nss) + "}",
              "Widths": "= {32, 64}", "Depth": "= 2", "Mode": f'= "{mode}"'}
    cases, r, ncases = tlacases.export_states("SampleSet", consts, name="sampleset-" + mode, timeout=3000)
    print(f"[{prop}] TLC enumerated {ncases} cases in {time.time() - t0:.0f}s", flush=True)
    if replay_path:
        scen = json.loads(open(replay_path).read())["scenario"]
        todo = [(0, scen["params"]["case"])]
    else:
        idx = list(range(len(cases)))
        rnd.shuffle(idx)
        if tier == "quick":
            idx = idx[: 30000 if mode == "algebra" else 20000]
        todo = [(i, cases[i]) for i in idx]
    ctx = mp.get_context("fork")
    with ctx.Pool(min(16, os.cpu_count() or 4)) as pool:
        results = pool.map(run_case, todo, chunksize=max(1, len(todo) // 64))
    print(f"[{prop}] replayed {len(todo)} cases by {time.time() - t0:.0f}s", flush=True)
    errs = [x for x in results if "error" in x]
    if errs:
        raise MachineryError(f"{len(errs)} cases crashed, first:\n{errs[0]['error']}")
    nv = 0
    skipped = 0
    bycase = dict(todo)
    for x in results:
        if x.get("skipped"):
            skipped += 1
        for (sig, what) in x["viol"]:
            nv += 1
            if sig.startswith("conf_"):
                verdict.model_drift(f"SampleSet: {what} ({sig})")
            else:
                verdict.violation(sig, what, replay={"builder": "sampleset_case", "params": {"case": bycase[x["i"]]}})
    extra = {}
    if prop == "C15" and not replay_path:
        import convert_extra
        extra = convert_extra.run(verdict, tier, seed)
    # binding self-test: the projection must notice a mis-aligned field
    from aspire.samples import Samples
    o = build({"cls": "Samples", "ns": "numpy", "width": 64, "fields": ["ll", "lp", "lq"], "rows": [1, 2, 3, 4], "ev": "own"})
    o.log_prior = o.log_prior[::-1]
    if project(o, None)["aligned"]:
        raise MachineryError("self-test: mis-aligned field not noticed by the projection")
    rc, n_unlisted, known = verdict.finish()
    distinct = set()
    for i, c in todo:
        distinct.add((c["init"]["cls"], c["init"]["ns"], c["init"]["width"], tuple(sorted(c["init"]["fields"])),
                      tuple(o["op"] + (o["sel"]["form"] if o["op"] == "select" else o.get("ns", "")) for o in c["ops"])))
    cov = {"states": int(max(1, r.distinct)), "transitions": int(max(1, r.generated)),
           "traces_validated_against_impl": len(todo),
           "samples": [{"init": c["init"], "ops": [{k: v for k, v in o.items() if k != "res"} for o in c["ops"]], "expected": c["final"]} for _, c in todo[:2]],
           "evaluations": len(todo), "distinct_nontrivial": len(distinct),
           "rule": "cases = (initial object: class x namespace x width x field subset) x (operation sequences of length 1-2) enumerated by TLC from SampleSet.tla; distinct = distinct (class, namespace, width, fields, operation kinds) tuples",
           "exhaustive": tier != "quick", "tlc_cases": ncases, "skipped_by_namespace_capability": skipped,
           "violating_case_results": nv, "known_findings_hit": known,
           "binding_selftest": "reversed log_prior noticed by the projection"}
    cov.update(extra)
    write_evidence(prop, tier, seed, time.time() - t0, cov, STD_ASSUMPTIONS[1:] + [
        "rows carry exactly representable values so that alignment is decided exactly in float32 and float64",
        "negative slice steps are outside the domain for the torch namespace (torch tensors reject them)"], n_unlisted)
    return rc
