"""A deterministic, instantly "trained" NumPy flow registered through aspire's
documented ``aspire.flows`` entry-point group.  It stands for "some flow":
Gaussian base with mean/std fitted to the (data-transformed) training data,
data transform honoured exactly like the real wrappers do.
"""
import array_api_compat.numpy as xnp
import numpy as np

from aspire.flows.base import Flow
from aspire.history import FlowHistory

OBSERVER = None


class VerifFlow(Flow):
    xp = xnp

    def __init__(self, dims, device=None, data_transform=None, dtype=None,
                 seed=1234, loc=None, scale=None, tag=0, parameters=None):
        super().__init__(dims, device=device, data_transform=data_transform)
        self.dtype = np.dtype(dtype) if dtype is not None else np.dtype("float64")
        self.seed = int(seed)
        self._rng = np.random.default_rng(self.seed)
        self.loc = np.zeros(dims) if loc is None else np.asarray(loc, dtype=float)
        self.scale = np.ones(dims) if scale is None else np.asarray(scale, dtype=float)
        self.tag = int(tag)
        self.parameters = parameters

    # -- training: instantaneous moment matching
    def fit(self, x, tag=None, **kwargs):
        x = np.asarray(x, dtype=float)
        xp_ = self.fit_data_transform(x)
        self.loc = np.asarray(xp_.mean(0), dtype=float)
        self.scale = np.asarray(xp_.std(0), dtype=float) + 1e-3
        if tag is not None:
            self.tag = int(tag)
        else:
            self.tag += 1
        return FlowHistory(training_loss=[0.0], validation_loss=[0.0])

    def _base_lp(self, xprime):
        zz = (xprime - self.loc) / self.scale
        return (-0.5 * zz**2 - np.log(self.scale) - 0.5 * np.log(2 * np.pi)).sum(-1)

    def log_prob(self, x, xp=xnp):
        x = np.asarray(x, dtype=float)
        xprime, lj = self.rescale(x)
        out = self._base_lp(np.asarray(xprime)) + np.asarray(lj)
        if OBSERVER is not None:
            OBSERVER({"t": "logq", "x": x.copy(), "flow": self})
        return xp.asarray(out.astype(self.dtype))

    def sample_and_log_prob(self, n_samples, xp=xnp):
        xprime = self.loc + self.scale * self._rng.normal(size=(n_samples, self.dims))
        lp = self._base_lp(xprime)
        x, lj = self.inverse_rescale(xprime)
        x = np.asarray(x)
        if OBSERVER is not None:
            OBSERVER({"t": "draw", "n": n_samples, "x": x.copy(), "flow": self})
        return xp.asarray(x.astype(self.dtype)), xp.asarray((lp - np.asarray(lj)).astype(self.dtype))

    def sample(self, n_samples, xp=xnp):
        return self.sample_and_log_prob(n_samples, xp=xp)[0]

    def forward(self, x, xp=xnp):
        x = np.asarray(x, dtype=float)
        xprime, lj = self.rescale(x)
        z = (np.asarray(xprime) - self.loc) / self.scale
        return xp.asarray(z), xp.asarray(np.asarray(lj) - np.log(self.scale).sum())

    def inverse(self, z, xp=xnp):
        z = np.asarray(z, dtype=float)
        xprime = z * self.scale + self.loc
        x, lj = self.inverse_rescale(xprime)
        return xp.asarray(np.asarray(x)), xp.asarray(np.asarray(lj) + np.log(self.scale).sum())

    def save(self, h5_file, path="flow"):
        grp = h5_file.create_group(path)
        grp.attrs["verifflow"] = 1
        grp.create_dataset("loc", data=self.loc)
        grp.create_dataset("scale", data=self.scale)
        grp.create_dataset("tag", data=self.tag)
        grp.create_dataset("seed", data=self.seed)
        grp.create_dataset("dims", data=self.dims)
        grp.create_dataset("dtype", data=str(self.dtype))
        if self.data_transform is not None:
            self.data_transform.save(grp, "data_transform")

    @classmethod
    def load(cls, h5_file, path="flow"):
        from aspire.transforms import BaseTransform

        grp = h5_file[path]
        dt = None
        if "data_transform" in grp:
            dt = BaseTransform.load(grp, "data_transform", strict=False)
        d = grp["dtype"][()]
        d = d.decode() if isinstance(d, bytes) else str(d)
        return cls(dims=int(grp["dims"][()]), data_transform=dt, dtype=d,
                   seed=int(grp["seed"][()]), loc=grp["loc"][()],
                   scale=grp["scale"][()], tag=int(grp["tag"][()]))
