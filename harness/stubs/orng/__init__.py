"""Stand-in for the `orng` package (not installable in the sealed sandbox).

Only the API aspire uses: ``ArrayRNG(backend=<name>)`` as a default random
source exposing the numpy ``Generator`` methods that aspire and the kernel
stub call (``choice``, ``normal``, ``uniform``, ``random``).  It owns a numpy
Generator seeded from OS entropy, so a run that relies on it is *not*
reproducible -- which is what lets the harness detect that a user-supplied
generator was replaced by a default one.
"""
import numpy as _np

CREATED = []  # harness observation: every default generator ever constructed


class ArrayRNG:
    def __init__(self, backend="numpy", seed=None):
        self.backend = backend
        self._g = _np.random.default_rng(seed)
        CREATED.append(self)

    @property
    def bit_generator(self):
        return self._g.bit_generator

    def choice(self, *a, **k):
        return self._g.choice(*a, **k)

    def normal(self, *a, **k):
        return self._g.normal(*a, **k)

    def uniform(self, *a, **k):
        return self._g.uniform(*a, **k)

    def random(self, *a, **k):
        return self._g.random(*a, **k)
