"""Stand-in for the `minipcn` package (not installable in the sealed sandbox).

API taken from aspire's call sites:
``Sampler(log_prob_fn, step_fn, rng, dims, target_acceptance_rate[, xp])``
and ``.sample(z, n_steps) -> (chain, history)`` with
``history.acceptance_rate``.  The kernel is a valid random-walk Metropolis
step whose only randomness comes from the generator it is handed.

Harness knobs (module globals, set by the drivers; never by aspire):
  OBSERVER   callable(event_dict) or None -- receives constructor / sample events
  SPLIT      int >= 1 -- evaluate each proposal batch in SPLIT chunks so that
             monitors cannot depend on batch structure
  SCALE      proposal scale
  MAX_SAMPLE_CALLS  int or None -- abort (KernelBudgetExceeded) after that many
             ``sample`` invocations (termination guard for C06)
"""
import numpy as _np

OBSERVER = None
SPLIT = 1
SCALE = 0.3
MAX_SAMPLE_CALLS = None
_sample_calls = 0


class KernelBudgetExceeded(RuntimeError):
    pass


def reset():
    global _sample_calls
    _sample_calls = 0


class _History:
    def __init__(self, acc):
        self.acceptance_rate = acc


def _to_np(a):
    try:
        import torch

        if isinstance(a, torch.Tensor):
            return a.detach().cpu().numpy()
    except Exception:
        pass
    return _np.asarray(a)


class Sampler:
    def __init__(
        self,
        log_prob_fn,
        step_fn="tpcn",
        rng=None,
        dims=None,
        target_acceptance_rate=0.234,
        xp=None,
    ):
        self.log_prob_fn = log_prob_fn
        self.step_fn = step_fn
        self.rng = rng if rng is not None else _np.random.default_rng()
        self.dims = dims
        self.target_acceptance_rate = target_acceptance_rate
        self.xp = xp
        if OBSERVER is not None:
            OBSERVER({"t": "kernel_init", "rng": rng, "xp": xp, "dims": dims})

    def _lp(self, z_np, like):
        n = len(z_np)
        k = max(1, min(int(SPLIT), n))
        out = []
        for part in _np.array_split(_np.arange(n), k):
            if len(part) == 0:
                continue
            zz = z_np[part]
            if self.xp is not None:
                arg = self.xp.asarray(zz, dtype=getattr(like, "dtype", None))
            else:
                arg = zz
            out.append(_to_np(self.log_prob_fn(arg)).reshape(-1))
        return _np.concatenate(out)

    def sample(self, z, n_steps=1):
        global _sample_calls
        _sample_calls += 1
        if MAX_SAMPLE_CALLS is not None and _sample_calls > MAX_SAMPLE_CALLS:
            raise KernelBudgetExceeded(_sample_calls)
        z0 = _to_np(z)
        cur = _np.array(z0, dtype=z0.dtype, copy=True)
        if OBSERVER is not None:
            OBSERVER({"t": "kernel", "z": cur.copy(), "n_steps": n_steps,
                      "rng": self.rng, "phase": "begin",
                      "beta": getattr(self.log_prob_fn, "keywords", {}).get("beta")})
        lp = self._lp(cur, z)
        chain = [cur.copy()]
        acc = []
        for _ in range(int(n_steps)):
            step = _np.asarray(self.rng.normal(size=cur.shape)) * SCALE
            prop = (cur + step).astype(cur.dtype)
            lpp = self._lp(prop, z)
            u = _np.asarray(self.rng.uniform(size=len(cur)))
            with _np.errstate(divide="ignore", invalid="ignore"):
                ok = _np.log(u) < (lpp - lp)
            ok = ok & _np.isfinite(lpp)
            cur = _np.where(ok[:, None], prop, cur)
            lp = _np.where(ok, lpp, lp)
            chain.append(cur.copy())
            acc.append(float(_np.mean(ok)))
        chain = _np.stack(chain)
        if OBSERVER is not None:
            OBSERVER({"t": "kernel", "out": chain[-1].copy(), "phase": "end"})
        if self.xp is not None:
            chain = self.xp.asarray(chain, dtype=getattr(z, "dtype", None))
        return chain, _History(_np.asarray(acc if acc else [0.0]))
