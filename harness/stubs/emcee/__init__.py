"""Stand-in for the `emcee` package (not installable in the sealed sandbox).

API taken from aspire's call sites: ``EnsembleSampler(nwalkers, ndim,
log_prob_fn, args=(), vectorize=True, moves=None)``, ``run_mcmc(p0, nsteps,
**kw)``, ``get_chain(flat=, discard=)``, ``acceptance_fraction``,
``get_autocorr_time(quiet=, discard=)``.  Like the real package the sampler
owns a private ``RandomState`` initialised from numpy's *global* state.
"""
import numpy as _np

OBSERVER = None
SCALE = 0.3
MAX_SAMPLE_CALLS = None
_sample_calls = 0


class KernelBudgetExceeded(RuntimeError):
    pass


def reset():
    global _sample_calls
    _sample_calls = 0


class EnsembleSampler:
    def __init__(self, nwalkers, ndim, log_prob_fn, args=(), kwargs=None,
                 vectorize=False, moves=None, **_):
        self.nwalkers = nwalkers
        self.ndim = ndim
        self.log_prob_fn = log_prob_fn
        self.args = tuple(args or ())
        self.kwargs = dict(kwargs or {})
        self.vectorize = vectorize
        self.moves = moves
        self._random = _np.random.mtrand.RandomState()
        self._random.set_state(_np.random.get_state())
        self._chain = None
        self.acceptance_fraction = _np.zeros(nwalkers)
        if OBSERVER is not None:
            OBSERVER({"t": "kernel_init", "rng": None, "xp": None, "dims": ndim})

    def _lp(self, z):
        if self.vectorize:
            return _np.asarray(self.log_prob_fn(z, *self.args, **self.kwargs)).reshape(-1)
        return _np.array([self.log_prob_fn(r, *self.args, **self.kwargs) for r in z])

    def run_mcmc(self, initial_state, nsteps, **kw):
        global _sample_calls
        _sample_calls += 1
        if MAX_SAMPLE_CALLS is not None and _sample_calls > MAX_SAMPLE_CALLS:
            raise KernelBudgetExceeded(_sample_calls)
        cur = _np.array(_np.asarray(initial_state), copy=True)
        if OBSERVER is not None:
            OBSERVER({"t": "kernel", "z": cur.copy(), "n_steps": nsteps,
                      "rng": None, "phase": "begin",
                      "beta": self.args[0] if self.args else None})
        lp = self._lp(cur)
        chain = []
        nacc = _np.zeros(len(cur))
        for _ in range(int(nsteps)):
            prop = cur + SCALE * self._random.normal(size=cur.shape)
            lpp = self._lp(prop)
            u = self._random.uniform(size=len(cur))
            with _np.errstate(divide="ignore", invalid="ignore"):
                ok = (_np.log(u) < (lpp - lp)) & _np.isfinite(lpp)
            cur = _np.where(ok[:, None], prop, cur)
            lp = _np.where(ok, lpp, lp)
            nacc += ok
            chain.append(cur.copy())
        self._chain = _np.stack(chain) if chain else cur[None]
        self.acceptance_fraction = nacc / max(1, int(nsteps))
        if OBSERVER is not None:
            OBSERVER({"t": "kernel", "out": self._chain[-1].copy(), "phase": "end"})
        return cur

    def get_chain(self, flat=False, discard=0, thin=1):
        c = self._chain[discard::thin]
        if flat:
            return c.reshape(-1, self.ndim)
        return c

    def get_autocorr_time(self, quiet=False, discard=0, **_):
        return _np.ones(self.ndim)
