"""C09 (spec -> code): every case of Resample.tla replayed on the public SMCSamples.resample
with a scripted generator that records the probability vector and returns TLC's index vector."""
from __future__ import annotations

import math

import numpy as np

import smcdrv
import tlacases


class ScriptedRNG:
    def __init__(self, idx0):
        self.idx0 = np.asarray(idx0, dtype=np.int64)
        self.calls = []

    def choice(self, a, size=None, replace=True, p=None):
        self.calls.append({"a": a, "size": size, "replace": replace,
                           "p": None if p is None else np.array(p, dtype=np.float64)})
        return self.idx0.copy()


def build_population(ks, ns, dtype, bf, den=4):
    from aspire.samples import SMCSamples
    xp = smcdrv.get_xp(ns)
    n = len(ks)
    i = np.arange(1, n + 1, dtype=np.float64)
    x = np.stack([i, 10.0 + i], axis=1)
    lp = -0.5 * i - 1.0
    kk = np.asarray([0 if k == 99 else k for k in ks], dtype=np.float64)
    dead = np.asarray([k == 99 for k in ks])
    ll = kk * math.log(2.0) + 3.0 * i
    lq = ll + lp - kk * math.log(2.0)
    ll = np.where(dead, -np.inf, ll)        # zero likelihood: incremental weight 0 for any move up
    s = SMCSamples(x, log_likelihood=ll, log_prior=lp, log_q=lq, xp=xp, dtype=dtype, beta=bf / float(den))
    return s, dict(x=x, ll=ll, lp=lp, lq=lq)


def replay(verdict, tier, seed):
    consts = {"Den": "= 4", "MaxMove": "= 4", "Ks": "<- QuickKs" if tier == "quick" else "<- DeepKs", "NMin": "= 2",
              "NMax": "= 3" if tier == "quick" else "= 4", "Betas": "= {0, 1, 2, 4}" if tier == "quick" else "= {0, 1, 2, 3, 4}",
              "MaxIdx": "= 6" if tier == "quick" else "= 10"}
    cases, r, ncases = tlacases.export_states("MC_Resample", consts, name="resample", timeout=3000)
    for c in cases:
        c["den"] = 4
    # fine ladder: temperature moves of 2^-21 and 2^-20 on log-weights of magnitude ~1e7
    fconsts = {"Den": "<- FineDen", "MaxMove": "= 2", "Ks": "<- FineKs", "NMin": "= 2",
               "NMax": "= 3" if tier == "quick" else "= 4", "Betas": "<- FineBetas",
               "MaxIdx": "= 3" if tier == "quick" else "= 6"}
    fcases, fr, fncases = tlacases.export_states("MC_Resample", fconsts, name="resample-fine", timeout=3000)
    for c in fcases:
        c["den"] = 2097152
    cases = cases + fcases
    ncases += fncases
    if len(cases) > 40000:          # the replay is sequential: a strided sample of a very large case space
        cases = cases[:: (len(cases) // 40000) + 1]
    nss = ["numpy", "torch", "jax"]
    combos = [(ns, dt) for ns in nss for dt in ("float64", "float32")]
    n_eval = 0
    distinct = set()
    for ci, c in enumerate(cases):
        ns, dt = combos[ci % len(combos)] if tier == "quick" else (None, None)
        for (ns, dt) in ([combos[ci % len(combos)]] if tier == "quick" else combos[(ci % 2)::2]):
            n_eval += 1
            ks, bf, bt, size, idx = c["ks"], c["bf"], c["bt"], c["size"], c["idx"]
            n = len(ks)
            scen = {"builder": "resample_case", "params": {"case": c, "ns": ns, "dtype": dt}}
            try:
                den = float(c["den"])
                s, src = build_population(ks, ns, dt, bf, den)
                if ci % 4 == 1:
                    # the population object has a past: it held other values and was asked for the weights of
                    # the same move before its fields and temperature were set to the case's values (the
                    # library itself assigns fields and temperatures on existing objects); what resample()
                    # does depends on the *current* state only
                    ks_o = [(k if k == 99 else -k) for k in ks][::-1]
                    s, _ = build_population(ks_o, ns, dt, bt if bt != bf else bf, den)
                    for q in (lambda: s.log_weights(bt / den), lambda: s.log_evidence_ratio(bt / den),
                              lambda: s.unnormalized_log_weights(bt / den)):
                        try:
                            q()
                        except Exception:
                            pass
                    fresh, src = build_population(ks, ns, dt, bf, den)
                    s.x, s.log_likelihood, s.log_prior, s.log_q = fresh.x, fresh.log_likelihood, fresh.log_prior, fresh.log_q
                    s.beta = fresh.beta
                rng = ScriptedRNG([j - 1 for j in idx])
                pass_size = size if (size != n or (ci % 3 == 0)) else None
                out = s.resample(bt / den, n_samples=pass_size, rng=rng)
            except Exception as ex:
                verdict.violation(f"NeverRaises|resample|{ns}/{dt}", f"resample raised {type(ex).__name__}: {ex} on case {c}", scen)
                continue
            tol = 1e-12 if dt == "float64" else 5e-6
            if bt == bf and pass_size is None:
                if rng.calls or out is not s:
                    verdict.violation("NewBetaAndSize|identity-branch", "same temperature and no size requested must return the population unchanged", scen)
                continue
            distinct.add((n, bt - bf, c["den"], size - n, tuple(sorted(ks)), ns, dt))
            if len(rng.calls) != 1:
                verdict.violation("ProbProportional|choice-calls", f"expected exactly one draw of the index vector, saw {len(rng.calls)}", scen)
                continue
            call = rng.calls[0]
            p = call["p"]
            exp_p = np.asarray(c["wnum"], dtype=np.float64) / float(c["wden"])
            if p is None or len(p) != n or not np.allclose(p, exp_p, rtol=0, atol=tol * 10) or abs(p.sum() - 1) > (1e-6 if dt == "float64" else 2e-5) \
               or call["a"] != n or call["size"] != size or call["replace"] is not True:
                verdict.violation(f"ProbProportional|{ns}/{dt}",
                                  f"selection probabilities {None if p is None else p.tolist()} != exact {exp_p.tolist()} (ks={ks}, beta {bf}/{c['den']}->{bt}/{c['den']}, size={size})", scen)
            rows = [j - 1 for j in c["rows"]]
            for fld, got in (("x", out.x), ("ll", out.log_likelihood), ("lp", out.log_prior), ("lq", out.log_q)):
                g = smcdrv.to_np(got).astype(np.float64)
                srcv = smcdrv.to_np(getattr(s, {"x": "x", "ll": "log_likelihood", "lp": "log_prior", "lq": "log_q"}[fld])).astype(np.float64)
                if g.shape[0] != size or not np.array_equal(g, srcv[rows]):  # -inf == -inf is True
                    verdict.violation(f"RowCopy|{fld}", f"field {fld} of the resampled population is not the source rows {rows} (ns={ns})", scen)
            ob = float(out.beta)
            if ob != bt / den or len(out) != size or smcdrv.width_of(out.x) != (64 if dt == "float64" else 32) or smcdrv.ns_of(out.x) != ns:
                verdict.violation(f"NewBetaAndSize|{ns}/{dt}", f"beta {ob} (want {bt/den}), size {len(out)} (want {size}), dtype {out.x.dtype}", scen)
    # binding self-test: a deliberately wrong reference must be rejected
    c0 = next(c for c in cases if c["den"] == 4 and c["bt"] > c["bf"] and len(set(c["ks"])) > 1)
    s, _ = build_population(c0["ks"], "numpy", "float64", c0["bf"])
    rng = ScriptedRNG([j - 1 for j in c0["idx"]])
    s.resample(c0["bt"] / 4.0, n_samples=c0["size"], rng=rng)
    wrong = np.asarray(c0["wnum"][::-1], dtype=np.float64) / c0["wden"]
    st_ok = not np.allclose(rng.calls[0]["p"], wrong, atol=1e-11)
    if not st_ok:
        raise tlacases.MachineryError("C09 self-test: reversed reference accepted")
    return {"tlc_states": r.distinct + fr.distinct, "tlc_transitions": r.generated + fr.generated, "resample_fine_ladder_cases": fncases, "resample_cases": ncases,
            "resample_replays": n_eval, "resample_distinct_nontrivial": len(distinct),
            "resample_selftest": "reversed reference rejected"}
