"""Compare a junit xml of the repository's suite with /root/.vp/BASELINE.json stable_pass."""
import json, sys
import xml.etree.ElementTree as ET

base = json.load(open("/root/.vp/BASELINE.json"))
want = set(base["stable_pass"])
root = ET.parse(sys.argv[1]).getroot()
passed = set()
for tc in root.iter("testcase"):
    name = f"{tc.get('classname')}::{tc.get('name')}"
    bad = any(ch.tag in ("failure", "error", "skipped") for ch in tc)
    if not bad:
        passed.add(name)
missing = sorted(want - passed)
print(f"baseline stable_pass: {len(want)}; passing now: {len(passed)}; baseline tests not passing now: {len(missing)}")
for m in missing[:20]:
    print("  MISSING", m)
sys.exit(1 if missing else 0)
