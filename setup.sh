#!/bin/sh
# Offline setup: syntax-check every specification module; nothing is fetched or built.
cd "$(dirname "$0")/spec" || exit 2
rc=0
for f in *.tla; do
  out=$(tla-sany "$f" 2>&1) || { echo "SANY failed on $f"; echo "$out" | tail -20; rc=2; }
  echo "$out" | grep -q "Semantic errors\|Parse Error\|Fatal error" && { echo "SANY errors in $f"; echo "$out" | tail -20; rc=2; }
done
mkdir -p ../evidence ../.work
/venv/bin/python -c "import numpy, h5py, torch, jax, mpmath" || rc=2
exit $rc
