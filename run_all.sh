#!/bin/bash
# run every registered check (default: quick) and validate the evidence files
tier=${1:-quick}
cd "$(dirname "$0")"
fail=0
for p in $(/venv/bin/python -c "import json; print(' '.join(c['property_id'] for c in json.load(open('MANIFEST.json'))['checks']))"); do
  s=$(date +%s)
  ./check $p --tier $tier > .work/run_$p.log 2>&1; rc=$?
  e=$(( $(date +%s) - s ))
  v=$(grep -c '^VIOLATION' .work/run_$p.log); k=$(grep -c '^KNOWN-FINDING' .work/run_$p.log); d=$(grep -c '^MODEL-DRIFT' .work/run_$p.log)
  echo "$p rc=$rc ${e}s violations=$v known=$k drift=$d"
  [ $rc -ne 0 ] && fail=1
done
python3-vt - <<'PY'
import json, jsonschema, glob
sch=json.load(open('/root/.vp/EVIDENCE.schema.json'))
for f in sorted(glob.glob('/verif/evidence/*.json')):
    try:
        jsonschema.validate(json.load(open(f)), sch)
    except Exception as ex:
        print("EVIDENCE INVALID", f, str(ex)[:200])
print("evidence validated")
PY
exit $fail
